#!/venv/bin/python
"""Run flox's own test-suite in <repo_dir> (default /repo) and compare with /root/.vp/BASELINE.json.

usage: run_suite.py [repo_dir] [-n workers] [-k expr]
exit 0 iff every test in BASELINE.stable_pass passed."""
import json, os, subprocess, sys, tempfile, xml.etree.ElementTree as ET

args = sys.argv[1:]
repo = "/repo"
nw = "8"
kexpr = None
i = 0
while i < len(args):
    if args[i] == "-n":
        nw = args[i + 1]; i += 2
    elif args[i] == "-k":
        kexpr = args[i + 1]; i += 2
    else:
        repo = args[i]; i += 1
base = json.load(open("/root/.vp/BASELINE.json"))
stable = set(base["stable_pass"])
fd, xml = tempfile.mkstemp(suffix=".xml"); os.close(fd)
env = dict(os.environ, HYPOTHESIS_STORAGE_DIRECTORY=tempfile.mkdtemp(prefix="hyp-"), PYTHONDONTWRITEBYTECODE="1", OMP_NUM_THREADS="1", NUMBA_NUM_THREADS="1", OPENBLAS_NUM_THREADS="1", MKL_NUM_THREADS="1")
env.pop("FLOX_VERIF", None)
cmd = ["/venv/bin/python", "-m", "pytest", "-q", "-p", "no:cacheprovider", "--timeout=900",
       "--continue-on-collection-errors", f"--junitxml={xml}", "-n", nw]
if kexpr:
    cmd += ["-k", kexpr]
p = subprocess.run(cmd, cwd=repo, env=env, capture_output=True, text=True)
tail = p.stdout.strip().splitlines()[-1:] 
passed = set()
for tc in ET.parse(xml).getroot().iter("testcase"):
    name = f"{tc.get('classname')}::{tc.get('name')}"
    if not any(ch.tag in ("failure", "error", "skipped") for ch in tc):
        passed.add(name)
os.unlink(xml)
missing = sorted(stable - passed) if not kexpr else []
print("pytest:", *tail)
print(f"stable_pass={len(stable)} passed_now={len(passed)} stable_not_passing={len(missing)}")
for m in missing[:30]:
    print("  NOT PASSING:", m)
sys.exit(1 if missing else 0)
