#!/venv/bin/python
"""dev helper: run a filtered subset of a check's shards in a process pool (no evidence written).

usage: parshard.py C02 thorough "s.get('nd')" [nproc]
prints one summary line per shard with violations and a total; exit 1 if any new violation.
"""
import collections
import importlib
import json
import multiprocessing as mp
import os
import sys

sys.path[:0] = [os.environ.get("VERIF_REPO", "/repo"), "/verif"]


def main():
    from mc import runner

    check, tier, flt = sys.argv[1], sys.argv[2], sys.argv[3] if len(sys.argv) > 3 else "True"
    nproc = int(sys.argv[4]) if len(sys.argv) > 4 else 16
    modname = "checks." + check.lower()
    mod = importlib.import_module(modname)
    shards = [s for s in mod.shards(tier, int(os.environ.get("VERIF_SEED", "0"))) if eval(flt, dict(s=s))]
    print(f"{check} {tier}: {len(shards)} shards selected")
    ctx = mp.get_context("spawn")
    tot = collections.Counter()
    outcomes = collections.Counter()
    nv = 0
    per_child = 1 if getattr(mod, "FRESH_PROCESS_PER_SHARD", False) else None
    with ctx.Pool(nproc, initializer=runner._worker_init, maxtasksperchild=per_child) as pool:
        for d in pool.imap_unordered(runner._run_one, [(modname, s) for s in shards], chunksize=1):
            tot["transitions"] += d.get("transitions", 0)
            tot["evaluations"] += d.get("evaluations", 0)
            for k, v in d.get("outcomes", {}).items():
                outcomes[k] += v
            for k, v in d.get("known", {}).items():
                tot["known:" + k] += v
            if d.get("nviolations"):
                nv += d["nviolations"]
                v = d["violations"][0]
                print("VIOL", d["nviolations"], json.dumps(v["tags"])[:300])
                print("     ", json.dumps(v["case"])[:400], "obs", json.dumps(v["observed"])[:200], "exp", json.dumps(v["expected"])[:200])
            if d.get("crash"):
                print("CRASH", str(d.get("crash"))[:600])
                nv += 1
    print(dict(tot), dict(outcomes))
    print("new violations:", nv)
    sys.exit(1 if nv else 0)


if __name__ == "__main__":
    main()
