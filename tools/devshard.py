#!/venv/bin/python
"""dev helper: run the shards of one check in-process and summarise violations by tag class.
usage: devshard.py C05 quick [filter-expr on shard dict, e.g. "s['kind']=='eager' and s['func']=='sum'"] [max_shards]"""
import sys, os, json, time, collections
sys.path[:0] = [os.environ.get("VERIF_REPO", "/repo"), "/verif"]
from mc import runner
runner._worker_init()
import importlib
mod = importlib.import_module("checks." + sys.argv[1].lower())
tier = sys.argv[2]
flt = sys.argv[3] if len(sys.argv) > 3 else "True"
mx = int(sys.argv[4]) if len(sys.argv) > 4 else 3
shards = [s for s in mod.shards(tier, 0) if eval(flt, dict(s=s))][:mx]
findings = []; runner.activate_findings(mod.PROPERTY)
for sh in shards:
    t = time.time(); d = mod.run_shard(sh).to_dict()
    print(sh, f"{time.time()-t:.1f}s", "trans", d["transitions"], dict(d["outcomes"]), "nviol", d["nviolations"], "known", d["known"])
    seen = collections.OrderedDict()
    cnt = collections.Counter()
    drop = set(os.environ.get("DROP", "sort,expected,dtype,reindex,labels_dask,nblocks,where").split(","))
    for v in d["violations"]:
        if any(runner.matches(f, v) for f in findings): continue
        k = json.dumps({a: b for a, b in v["tags"].items() if a not in drop}, sort_keys=True)
        cnt[k] += 1
        seen.setdefault(k, v)
    for k, v in list(seen.items())[:int(os.environ.get("MAXV", "15"))]:
        print("   V x%d" % cnt[k], k)
        print("      ", json.dumps(v["case"])[:420], "obs", json.dumps(v["observed"])[:160], "exp", json.dumps(v["expected"])[:100])
