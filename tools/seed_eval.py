#!/venv/bin/python
"""Evaluate one seeded mutant.

  seed_eval.py confirm <name> <patch.diff> <demo.py> <property> "<needs>"
        in a scratch worktree of /repo HEAD (outside /repo and /verif): demo must exit 0 without and 1 with the
        patch, and flox's own suite must still pass with the patch.  On success the mutant is stored as
        /verif/seeded/<name>/{patch.diff, demo.py, meta.json}.
  seed_eval.py detect <name> [--tier quick] [--checks C02,C09]
        applies /verif/seeded/<name>/patch.diff to /repo, runs the checks, reverts /repo, records the verdicts
        in meta.json.
"""
import json, os, shutil, subprocess, sys, time

VERIF = "/verif"
ENV = dict(os.environ, PYTHONDONTWRITEBYTECODE="1", OMP_NUM_THREADS="1", NUMBA_NUM_THREADS="1", PYTHONHASHSEED="0")


def sh(cmd, **kw):
    return subprocess.run(cmd, shell=True, capture_output=True, text=True, **kw)


def run_demo(wt, demo):
    p = subprocess.run(["/venv/bin/python", demo], env=dict(ENV, PYTHONPATH=wt), capture_output=True, text=True, cwd="/tmp")
    return p.returncode, (p.stdout + p.stderr)[-1500:]


def confirm(name, patch, demo, prop, needs, nworkers="8"):
    wt = f"/tmp/wt/eval-{name}"
    sh(f"git -C /repo worktree remove --force {wt}")
    assert sh(f"git -C /repo worktree add -q {wt} HEAD").returncode == 0
    meta = dict(name=name, property=prop, needs=needs, base_commit=sh("git -C /repo rev-parse --short HEAD").stdout.strip())
    try:
        rc0, out0 = run_demo(wt, demo)
        ap = sh(f"git -C {wt} apply --3way {patch} || git -C {wt} apply {patch}")
        if sh(f"git -C {wt} diff --quiet HEAD").returncode == 0:
            print("PATCH DOES NOT APPLY", ap.stderr[-500:]); return 2
        rc1, out1 = run_demo(wt, demo)
        meta["demo_without_patch_exit"] = rc0
        meta["demo_with_patch_exit"] = rc1
        print(f"demo: without patch exit={rc0}, with patch exit={rc1}")
        if rc0 != 0 or rc1 == 0:
            print("demo does not discriminate"); print(out0[-600:]); print(out1[-600:])
            return 3
        t = time.time()
        seeder_log = os.environ.get("SEED_SUITE_LOG") if os.path.exists(os.environ.get("SEED_SUITE_LOG", "/nonexistent")) else None  # full-suite log written by the seeding agent with tools/run_suite.py
        if seeder_log:
            lines = [l.strip() for l in open(seeder_log).read().splitlines() if "stable_not_passing=" in l][-1:]
            if not lines or "stable_not_passing=0" not in lines[0]:
                print("seeder's suite log is not clean -> run the suite here"); seeder_log = None
        if seeder_log:
            meta["suite"] = lines
            meta["suite_run_by"] = "seeding agent (tools/run_suite.py in its own worktree); demo re-run here"
            print("\n".join(lines))
        else:
            p = sh(f"{VERIF}/tools/run_suite.py {wt} -n {nworkers}")
            lines = [l for l in p.stdout.splitlines() if l.startswith(("pytest:", "stable_pass", "  NOT PASSING"))]
            meta["suite"] = lines[:12]
            meta["suite_wall_s"] = round(time.time() - t)
            print("\n".join(lines[:12]))
            if p.returncode != 0:
                print("suite does NOT pass with this patch -> mutant rejected"); return 4
        # store a patch that applies on current HEAD
        diff = sh(f"git -C {wt} diff HEAD").stdout
        d = f"{VERIF}/seeded/{name}"
        os.makedirs(d, exist_ok=True)
        open(f"{d}/patch.diff", "w").write(diff)
        shutil.copy(demo, f"{d}/demo.py")
        meta["ran"] = [f"PYTHONPATH=<worktree> /venv/bin/python demo.py (exit {rc0} clean, {rc1} patched)",
                       f"tools/run_suite.py <worktree> (all {len(json.load(open('/root/.vp/BASELINE.json'))['stable_pass'])} baseline-passing tests pass)"
                       + (" - run by the seeding agent" if seeder_log else f" -n {nworkers}")]
        meta["demo_output_with_patch"] = out1[-800:]
        json.dump(meta, open(f"{d}/meta.json", "w"), indent=1)
        print("stored", d)
        return 0
    finally:
        sh(f"git -C /repo worktree remove --force {wt}")


def detect(name, tier="quick", checks=None):
    """Runs the checks against a scratch worktree of /repo HEAD with the patch applied (VERIF_REPO), so that
    /repo itself is never modified and several experiments can run side by side."""
    d = f"{VERIF}/seeded/{name}"
    meta = json.load(open(f"{d}/meta.json"))
    checks = checks or [meta["property"]]
    wt = f"/tmp/wt/detect-{name}"
    sh(f"git -C /repo worktree remove --force {wt}")
    assert sh(f"git -C /repo worktree add -q {wt} HEAD").returncode == 0
    try:
        ap = sh(f"git -C {wt} apply {d}/patch.diff")
        if ap.returncode != 0:
            ap = sh(f"git -C {wt} apply --3way {d}/patch.diff")
        if sh(f"git -C {wt} diff --quiet HEAD -- flox").returncode == 0:
            print("patch does not apply on /repo HEAD:", ap.stderr[-400:]); return 2
        verdicts = meta.setdefault("detection", {})
        for c in checks:
            t = time.time()
            p = subprocess.run(f"./check {c} --tier {tier}", shell=True, cwd=VERIF, capture_output=True, text=True,
                               env=dict(os.environ, VERIF_REPO=wt, VERIF_SEED=os.environ.get("VERIF_SEED", "0"),
                                        VERIF_EVIDENCE_DIR=f"/tmp/wt/evidence-{name}"))
            viol = [l for l in p.stdout.splitlines() if l.startswith("VIOLATION")]
            verdict = "DETECTED" if (p.returncode == 1 and viol) else ("silent" if p.returncode == 0 else f"exit{p.returncode}")
            verdicts[f"{c}:{tier}"] = dict(verdict=verdict, n_violation_lines=len(viol), wall_s=round(time.time() - t),
                                          commit=sh("git -C /verif rev-parse --short HEAD").stdout.strip())
            print(f"{name}: {c} {tier}: {verdict} ({len(viol)} VIOLATION lines, {time.time()-t:.0f}s)")
            for l in p.stdout.splitlines():
                if l.startswith("  leg="):
                    print("   ", l[:300]); break
            if p.returncode not in (0, 1):
                print(p.stdout[-800:], p.stderr[-800:])
    finally:
        sh(f"git -C /repo worktree remove --force {wt}")
        sh(f"rm -rf /tmp/wt/evidence-{name}")
    json.dump(meta, open(f"{d}/meta.json", "w"), indent=1)
    return 0


if __name__ == "__main__":
    a = sys.argv[1:]
    if a[0] == "confirm":
        sys.exit(confirm(*a[1:6], *(a[6:7])))
    elif a[0] == "detect":
        name = a[1]; tier = "quick"; checks = None
        for i, x in enumerate(a):
            if x == "--tier": tier = a[i + 1]
            if x == "--checks": checks = a[i + 1].split(",")
        sys.exit(detect(name, tier, checks))
