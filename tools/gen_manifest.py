#!/venv/bin/python
"""Generates /verif/MANIFEST.json from the check modules that exist (checks/cNN.py with a MANIFEST dict
or defaults) so the manifest is always in step with the code."""
import importlib, json, os, sys
VERIF = os.path.dirname(os.path.dirname(os.path.abspath(__file__)))
sys.path.insert(0, VERIF)
props = [json.loads(l) for l in open(os.path.join(VERIF, "properties.jsonl"))]
checks, na = [], []
import ast
for p in props:
    pid = p["id"]
    path = os.path.join(VERIF, "checks", pid.lower() + ".py")
    meta = None
    if os.path.exists(path):
        tree = ast.parse(open(path).read())
        consts = {}
        for node in tree.body:
            if isinstance(node, ast.Assign) and len(node.targets) == 1 and isinstance(node.targets[0], ast.Name):
                try:
                    consts[node.targets[0].id] = ast.literal_eval(node.value)
                except Exception:
                    pass
        meta = consts
    if meta is None or meta.get("DISABLED"):
        na.append(dict(property_id=pid, reason=(meta or {}).get("DISABLED", "check not built yet in this round (see DESIGN.md)")))
        continue
    checks.append(dict(
        property_id=pid,
        quick_cmd=f"./check {pid} --tier quick",
        thorough_cmd=f"./check {pid} --tier thorough",
        evidence_file=f"/verif/evidence/{pid}.json",
        replay_cmd_template="./check --replay {path}",
        engine=meta.get("ENGINE", "E1"),
        level_claimed=dict(category=meta.get("LEVEL", "model_checking"),
                           text=meta.get("LEVEL_TEXT", "bounded exhaustive explicit-state exploration of the real flox code against a reference model: every state of the stated finite space is executed and compared (no sampling). " + str(meta.get("RULE", ""))[:700]),
                           design_ref=meta.get("DESIGN_REF", f"DESIGN.md section 3 (row {pid}), sections 1-2 for the explorer")),
        level_note=meta.get("LEVEL_NOTE", "; ".join(meta.get("ASSUMPTIONS", []))[:900]),
        technique=meta.get("TECHNIQUE", "explicit-state model checking of the implementation (exhaustive small-scope enumeration, reference-model oracle)"),
    ))
man = dict(
    version=1,
    setup_cmd="./setup.sh",
    hooks=dict(guard="FLOX_VERIF", enable="no source hooks are needed: checks import flox from /repo's working tree (PYTHONPATH=/repo) and wrap functions from inside the harness process; ./check exports FLOX_VERIF=1 for any future guarded hook",
               baseline_off_cmd="cd /repo && env -u FLOX_VERIF /venv/bin/python -m pytest -ra -q -p no:cacheprovider --timeout=900 --continue-on-collection-errors",
               source_commits=[], add_only=True),
    engines=[
        dict(name="E1", path="/verif/mc/e1.py", serves_properties=[c["property_id"] for c in checks if c["engine"] == "E1"], kind_free_text="small-scope product explorer driving the public API on every point of a finite input x configuration space"),
        dict(name="E2", path="/verif/checks/c04.py", serves_properties=[c["property_id"] for c in checks if c["engine"] == "E2"], kind_free_text="aggregation-algebra explorer: every distribution of a small multiset of values over ordered blocks, driven through the public API so that the real block/combine/finalize functions run"),
        dict(name="E3", path="/verif/mc/graphx.py", serves_properties=[c["property_id"] for c in checks if c["engine"] == "E3"], kind_free_text="explicit-state explorer over the order ideals of real flox task graphs (task order, re-execution, pickling)"),
        dict(name="E4", path="/verif/mc/ilv.py", serves_properties=["C03", "C13"], kind_free_text="preemption-bounded line-level interleaving explorer for two real tasks sharing an input"),
        dict(name="E5", path="/verif/checks/c14.py", serves_properties=[c["property_id"] for c in checks if c["engine"] == "E5"], kind_free_text="explorer of API call histories (fresh interpreter per prefix, snapshots of flox's process-wide mutable state) and of co-computed lazy results"),
        dict(name="E6", path="/verif/checks/c09.py", serves_properties=[c["property_id"] for c in checks if c["engine"] == "E6"], kind_free_text="planner / graph reachability explorer (cohorts, dependency closures, provenance data)"),
    ],
    checks=checks,
    notes="All checks: ./check <ID> --tier quick|thorough (VERIF_SEED selects one extra complete stratum, never the verdict on the base bound). Known findings: /verif/known_findings.json. Replays: ./check --replay <file>.",
    not_applicable=na,
)
json.dump(man, open(os.path.join(VERIF, "MANIFEST.json"), "w"), indent=1)
print("claimed:", [c["property_id"] for c in checks]); print("not claimed:", [n["property_id"] for n in na])
