#!/venv/bin/python
"""Generates /verif/MUTANTS.md from /verif/seeded/*/meta.json."""
import glob, json, os
rows = []
for f in sorted(glob.glob("/verif/seeded/*/meta.json")):
    m = json.load(open(f))
    det = m.get("detection", {})
    verdicts = "; ".join(f"{k}: {v['verdict']}" for k, v in sorted(det.items())) or "not run yet"
    rows.append((m["name"], m["property"], m["needs"], verdicts))
with open("/verif/MUTANTS.md", "w") as out:
    out.write("# Seeded property-breaking changes\n\nEach change lives in `seeded/<name>/` (patch.diff, demo.py, meta.json). All were confirmed with "
              "`tools/seed_eval.py confirm` (demo exits 0 on the clean tree and 1 with the patch; flox's own suite still passes) and evaluated with "
              "`tools/seed_eval.py detect` (the check is run against a scratch worktree of /repo HEAD with the patch applied).\n\n")
    out.write("| change | property | what it needs to manifest | verdicts (check:tier) |\n|---|---|---|---|\n")
    for r in rows:
        out.write("| " + " | ".join(str(x).replace("|", "/") for x in r) + " |\n")
    n = len(rows)
    caught = sum(1 for r in rows if "DETECTED" in r[3])
    out.write(f"\n{caught} of {n} confirmed changes are detected by at least one quick check.\n")
print(open("/verif/MUTANTS.md").read()[-400:])
