"""Finite alphabets and enumerators shared by the explorers (simplest value first on every axis)."""

from __future__ import annotations

import itertools

import numpy as np

NAN = float("nan")
INF = float("inf")

A_F = (1.0, -2.0, 0.0, 3.5, NAN)  # floats: positive, negative, zero, non-integer, NaN
A_F3 = (1.0, -2.0, NAN)
A_INF = (1.0, -2.0, 0.0, NAN, INF, -INF)
A_I = (1, -2, 0, 3)
A_U = (1, 2, 0, 3)
A_B = (True, False)

FLOAT_DTYPES = ("float64", "float32")
INT_DTYPES = ("int64", "int8", "uint8")

REDUCIBLE = (
    "sum nansum prod nanprod mean nanmean var nanvar std nanstd max nanmax min nanmin "
    "argmax nanargmax argmin nanargmin count first last nanfirst nanlast any all"
).split()
ORDER_STATS = "median nanmedian quantile nanquantile".split()
ARG_FUNCS = ("argmax", "nanargmax", "argmin", "nanargmin")
FIRST_LAST = ("first", "last", "nanfirst", "nanlast")
ENGINES = ("numpy", "flox", "numbagg", "numba", None)


def alphabet_for(dtype, small=False):
    dt = np.dtype(dtype)
    if dt.kind == "f":
        return A_F3 if small else A_F
    if dt.kind == "i":
        return A_I[:3] if small else A_I
    if dt.kind == "u":
        return A_U[:3] if small else A_U
    if dt.kind == "b":
        return A_B
    raise ValueError(dtype)


def compositions(n):
    """All 2**(n-1) ways of cutting an axis of length n into chunks, fewest chunks first."""
    out = []
    for cuts in range(n):
        for pos in itertools.combinations(range(1, n), cuts):
            b = (0,) + pos + (n,)
            out.append(tuple(b[i + 1] - b[i] for i in range(len(b) - 1)))
    return out


def value_matrix(alphabet, n, dtype):
    """All |alphabet|**n value tuples as the rows of one (B, n) array."""
    rows = list(itertools.product(alphabet, repeat=n))
    return np.array(rows, dtype=dtype).reshape(len(rows), n)


def label_tuples(alphabet, n):
    return list(itertools.product(alphabet, repeat=n))


def chunk_bounds(chunks):
    b = [0]
    for c in chunks:
        b.append(b[-1] + c)
    return b


def block_of(pos, chunks):
    b = chunk_bounds(chunks)
    for i in range(len(chunks)):
        if b[i] <= pos < b[i + 1]:
            return i
    raise IndexError(pos)


def stratum(items, seed, k):
    """Deterministic choice of one of k strata of a list (used by quick tiers to add ONE complete
    extra stratum beyond the base bound; the seed never changes the base bound)."""
    items = list(items)
    return [x for i, x in enumerate(items) if i % k == seed % k]
