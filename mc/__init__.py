"""Model-checking machinery for flox (see /verif/DESIGN.md)."""
