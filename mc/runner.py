"""Shard runner: fans the shards of one check out over worker processes, merges what they covered,
classifies violations against known_findings.json, writes replay artefacts and the evidence file."""

from __future__ import annotations

import collections
import hashlib
import importlib
import json
import multiprocessing as mp
import os
import sys
import time
import traceback

VERIF = os.path.dirname(os.path.dirname(os.path.abspath(__file__)))
REPO = os.environ.get("VERIF_REPO", "/repo")

MAX_VIOLATIONS_PER_SHARD = 40
MAX_REPLAY_FILES = 12
MAX_SAMPLES = 6
ACTIVE_FINDINGS = []


def jsonable(x):
    """Best-effort conversion of numpy / pandas things to plain JSON."""
    import numpy as np

    if isinstance(x, dict):
        return {str(k): jsonable(v) for k, v in x.items()}
    if isinstance(x, (list, tuple, set, frozenset)):
        return [jsonable(v) for v in x]
    if isinstance(x, np.ndarray):
        if x.dtype.kind in "Mm":
            return [str(v) for v in x.ravel().tolist()] if x.ndim else str(x)
        return jsonable(x.tolist())
    if isinstance(x, (np.bool_,)):
        return bool(x)
    if isinstance(x, np.integer):
        return int(x)
    if isinstance(x, np.floating):
        x = float(x)
    if isinstance(x, float):
        if x != x:
            return "nan"
        if x in (float("inf"), float("-inf")):
            return "inf" if x > 0 else "-inf"
        return x
    if isinstance(x, (str, int, bool)) or x is None:
        return x
    if isinstance(x, (np.datetime64, np.timedelta64)):
        return str(x)
    if isinstance(x, np.dtype):
        return str(x)
    if isinstance(x, type):
        return x.__name__
    return repr(x)


def unjson_float(x):
    """Inverse of jsonable for float values / nested lists of them."""
    if isinstance(x, list):
        return [unjson_float(v) for v in x]
    if x == "nan":
        return float("nan")
    if x == "inf":
        return float("inf")
    if x == "-inf":
        return float("-inf")
    return x


class Result:
    """What one shard (or the whole run) covered."""

    def __init__(self):
        self.evaluations = 0  # real-code executions (API calls / task executions)
        self.compared = 0  # executions whose outcome was compared with the reference model
        self.states = 0  # distinct canonical states visited
        self.transitions = 0  # real-code transitions between states
        self.nontrivial = 0  # distinct non-trivial cases by the check's rule
        self.outcomes = collections.Counter()  # outcome classes (ok / refused / ...)
        self.classes = collections.Counter()  # coverage classes (absent group, size-1 chunk, ...)
        self.violations = []
        self.nviolations = 0
        self.samples = []
        self.caps = []  # any cap that was hit (=> not exhaustive)
        self.extra = collections.Counter()
        self.known = collections.Counter()  # listed known findings that were hit (id -> cases)

    def violate(self, leg, case, observed, expected, tags=None, size=0, note=""):
        tags = jsonable(dict(tags or {}, leg=leg))
        # listed findings are counted at once so that they cannot crowd new violations out of the cap
        for f in ACTIVE_FINDINGS:
            if matches(f, dict(tags=tags)):
                self.known[f["id"]] += 1
                return
        self.nviolations += 1
        if len(self.violations) < MAX_VIOLATIONS_PER_SHARD:
            self.violations.append(
                dict(
                    leg=leg,
                    case=jsonable(case),
                    observed=jsonable(observed),
                    expected=jsonable(expected),
                    tags=tags,
                    size=size,
                    note=note,
                )
            )

    def sample(self, s):
        if len(self.samples) < MAX_SAMPLES:
            self.samples.append(jsonable(s))

    def to_dict(self):
        return dict(
            evaluations=self.evaluations,
            compared=self.compared,
            states=self.states,
            transitions=self.transitions,
            nontrivial=self.nontrivial,
            outcomes=dict(self.outcomes),
            classes=dict(self.classes),
            violations=self.violations,
            nviolations=self.nviolations,
            samples=self.samples,
            caps=self.caps,
            extra=dict(self.extra),
            known=dict(self.known),
        )

    def merge(self, d):
        self.evaluations += d["evaluations"]
        self.compared += d["compared"]
        self.states += d["states"]
        self.transitions += d["transitions"]
        self.nontrivial += d["nontrivial"]
        self.outcomes.update(d["outcomes"])
        self.classes.update(d["classes"])
        self.extra.update(d["extra"])
        self.known.update(d.get("known", {}))
        self.nviolations += d["nviolations"]
        self.violations.extend(d["violations"])
        for s in d["samples"]:
            if len(self.samples) < MAX_SAMPLES:
                self.samples.append(s)
        for c in d["caps"]:
            if c not in self.caps:
                self.caps.append(c)


def _worker_init():
    sys.path[:0] = [p for p in (REPO, VERIF) if p not in sys.path]
    import warnings

    warnings.simplefilter("ignore")
    import dask

    dask.config.set(scheduler="sync")
    import flox

    assert os.path.realpath(flox.__file__).startswith(REPO + "/flox"), flox.__file__


def activate_findings(pid):
    ACTIVE_FINDINGS[:] = [f for f in load_findings() if f["property"] == pid and f.get("status", "open") == "open"]


def _run_one(args):
    modname, shard = args
    t0 = time.time()
    try:
        mod = importlib.import_module(modname)
        activate_findings(mod.PROPERTY)
        res = mod.run_shard(shard)
        d = res.to_dict() if isinstance(res, Result) else res
    except BaseException as e:  # a harness crash is reported, never swallowed
        r = Result()
        r.violate(
            "harness-exception",
            dict(shard=shard),
            observed="".join(traceback.format_exception(type(e), e, e.__traceback__))[-3000:],
            expected="shard runs to completion",
            tags=dict(exc=type(e).__name__),
        )
        d = r.to_dict()
    d["wall"] = time.time() - t0
    d["shard"] = shard
    return d


def load_findings():
    path = os.path.join(VERIF, "known_findings.json")
    if not os.path.exists(path):
        return []
    with open(path) as f:
        return json.load(f).get("findings", [])


def _match_value(want, got):
    if isinstance(want, dict):
        if "not" in want:
            return not _match_value(want["not"], got)
        if "min" in want and not (got is not None and got >= want["min"]):
            return False
        if "max" in want and not (got is not None and got <= want["max"]):
            return False
        return True
    if isinstance(want, list):
        return got in want
    return want == got


def matches(finding, violation):
    if finding.get("status", "open") != "open":
        return False
    tags = violation.get("tags", {})
    for k, want in finding["match"].items():
        if k not in tags:
            return False
        if not _match_value(want, tags[k]):
            return False
    return True


def run_check(modname, tier, seed, nproc=None):
    t0 = time.time()
    mod = importlib.import_module(modname)
    pid = mod.PROPERTY
    shards = mod.shards(tier, seed)
    nproc = nproc or int(os.environ.get("VERIF_NPROC", "16"))
    nproc = max(1, min(nproc, len(shards)))
    total = Result()
    walls = []
    ctx = mp.get_context("spawn")
    # checks about process-wide state ask for a fresh interpreter per shard
    per_child = 1 if getattr(mod, "FRESH_PROCESS_PER_SHARD", False) else None
    with ctx.Pool(nproc, initializer=_worker_init, maxtasksperchild=per_child) as pool:
        for d in pool.imap_unordered(_run_one, [(modname, s) for s in shards], chunksize=1):
            total.merge(d)
            walls.append((d["wall"], d["shard"]))
    # Optional whole-run post-check (e.g. cross-shard consistency)
    if hasattr(mod, "finish"):
        mod.finish(total, tier, seed)

    findings = {f["id"]: f for f in load_findings() if f["property"] == pid}
    new = list(total.violations)
    # violations beyond the per-shard cap are not individually listed (per-shard lists are simplest-first)
    new.sort(key=lambda v: (v.get("size", 0), json.dumps(v["case"], sort_keys=True)))

    for fid, n in sorted(total.known.items()):
        print(f"KNOWN-FINDING: property={pid} {fid}: {findings[fid]['what']} (matched {n} explored cases)")

    replay_paths = []
    seen_classes = set()
    os.makedirs(os.path.join(VERIF, "replays"), exist_ok=True)
    for v in new:
        cls = json.dumps(v["tags"], sort_keys=True)
        if cls in seen_classes:
            continue
        seen_classes.add(cls)
        if len(replay_paths) >= MAX_REPLAY_FILES:
            break
        payload = dict(property=pid, module=modname, tier=tier, seed=seed, **v)
        h = hashlib.sha1(json.dumps(payload, sort_keys=True).encode()).hexdigest()[:12]
        path = os.path.join(VERIF, "replays", f"{pid}-{h}.json")
        payload["how_to_replay"] = f"cd /verif && ./check --replay {path}"
        with open(path, "w") as fh:
            json.dump(payload, fh, indent=1, sort_keys=True)
        replay_paths.append(path)
        print(f"VIOLATION property={pid} replay={path}")
        print(f"  leg={v['leg']} case={json.dumps(v['case'], sort_keys=True)[:600]}")
        print(f"  observed={json.dumps(v['observed'])[:400]}")
        print(f"  expected={json.dumps(v['expected'])[:400]}")

    wall = time.time() - t0
    exhaustive = not total.caps
    coverage = dict(
        states=int(total.states),
        transitions=int(total.transitions),
        traces_validated_against_impl=int(total.compared),
        evaluations=int(total.evaluations),
        distinct_nontrivial=int(total.nontrivial),
        rule=mod.RULE,
        samples=total.samples[:MAX_SAMPLES],
        exhaustive=bool(exhaustive),
        caps_hit=total.caps,
        outcome_histogram=dict(total.outcomes),
        coverage_classes=dict(total.classes),
        counters=dict(total.extra),
        bounds=mod.bounds(tier, seed) if hasattr(mod, "bounds") else {},
        shards=len(shards),
        slowest_shards=[dict(wall_s=round(w, 2), shard=s) for w, s in sorted(walls, key=lambda t: -t[0])[:3]],
        known_findings_matched=dict(total.known),
        explanation=getattr(mod, "EXPLANATION", ""),
    )
    ev = dict(
        property_id=pid,
        tier=tier,
        seed=int(seed),
        level=getattr(mod, "LEVEL", "model_checking"),
        coverage=coverage,
        assumptions=list(getattr(mod, "ASSUMPTIONS", [])),
        wall_s=round(wall, 2),
        violations=int(total.nviolations),
    )
    from . import evidence

    evidence.write(pid, ev)
    print(
        f"{pid} tier={tier} seed={seed}: states={total.states} transitions={total.transitions} "
        f"evaluations={total.evaluations} compared={total.compared} nontrivial={total.nontrivial} "
        f"violations(new)={total.nviolations} known={sum(total.known.values())} wall={wall:.1f}s "
        f"exhaustive={exhaustive}"
    )
    print("  outcomes:", dict(total.outcomes))
    return 1 if new else 0


def run_replay(path):
    with open(path) as f:
        payload = json.load(f)
    _worker_init()
    mod = importlib.import_module(payload["module"])
    pid = payload["property"]
    ACTIVE_FINDINGS[:] = []  # a replay shows everything it reproduces; classification happens below
    outs = []
    for _ in range(2):  # a replay must be deterministic: run it twice
        r = mod.replay(payload)
        d = r.to_dict() if isinstance(r, Result) else r
        outs.append(json.dumps([(v["leg"], v["observed"], v["expected"]) for v in d["violations"]], sort_keys=True))
    if outs[0] != outs[1]:
        print(f"REPLAY-NONDETERMINISTIC property={pid} file={path}")
        print(outs[0][:1000])
        print(outs[1][:1000])
        return 2
    findings = [f for f in load_findings() if f["property"] == pid]
    vs = d["violations"]
    if not vs:
        print(f"replay of {path}: property {pid} holds on this case (no violation reproduced)")
        return 0
    new = [v for v in vs if not any(matches(f, v) for f in findings)]
    for v in vs:
        print(f"  leg={v['leg']} observed={json.dumps(v['observed'])[:400]} expected={json.dumps(v['expected'])[:400]}")
    if new:
        print(f"VIOLATION property={pid} replay={path}")
        return 1
    print(f"KNOWN-FINDING: property={pid} replayed case matches a listed finding")
    return 0
