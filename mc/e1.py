"""E1 helpers: drive one public flox call, classify its outcome, build the expected table from the
reference model and compare."""

from __future__ import annotations

import warnings

import numpy as np

from . import refmodel as rm

REFUSALS = (ValueError, NotImplementedError, ImportError)


class Outcome:
    __slots__ = ("kind", "result", "groups", "exc", "msg", "where", "origin")

    def __init__(self, kind, result=None, groups=None, exc=None, msg="", where="", origin=""):
        self.kind = kind  # "ok" | "refused" | "error"
        self.result = result
        self.groups = groups
        self.exc = exc
        self.msg = msg
        self.where = where  # "call" | "compute"
        self.origin = origin  # "flox" if the exception was raised by a frame of flox itself, else the top-level package that raised it

    def brief(self):
        if self.kind == "ok":
            return dict(kind="ok", result=self.result, groups=self.groups)
        return dict(kind=self.kind, exc=self.exc, msg=self.msg[:300], where=self.where, raised_in=self.origin)


def raised_in(e):
    """Which package raised this exception (the innermost traceback frame)."""
    import os

    tb = e.__traceback__
    last = None
    while tb is not None:
        last = tb
        tb = tb.tb_next
    if last is None:
        return "?"
    fn = last.tb_frame.f_code.co_filename
    parts = fn.replace("\\", "/").split("/")
    if "flox" in parts and "site-packages" not in parts:
        return "flox"
    if "site-packages" in parts:
        return parts[parts.index("site-packages") + 1]
    return os.path.basename(fn)


def reset_flox_caches():
    """Every execution starts from the same process-wide state (C14 explores the caches on purpose)."""
    try:
        from flox import cache as fc

        c = fc.cache
        if hasattr(c, "clear"):
            c.clear()
    except Exception:
        pass
    try:
        from flox.dask_array_ops import get_parts

        get_parts.cache_clear()
    except Exception:
        pass


WATCH = {}  # dask array name -> the in-memory array it was made from (make_dask)
CHECK_INPUTS = False  # C14 owns "a call never modifies its arguments": only its argument leg switches this on


def _snapshots(array, by):
    """Bytes of every in-memory input of a call (and of the in-memory array behind a dask input made by
    make_dask): a public call must leave its inputs as it found them."""
    out = []
    if not CHECK_INPUTS:
        return out
    for a in (array, *by):
        if isinstance(a, np.ndarray):
            base = a
        else:
            base = WATCH.get(getattr(a, "name", None))
        if isinstance(base, np.ndarray) and base.dtype != object:
            out.append((base, base.tobytes()))
    return out


def _input_mutated(snaps):
    bad = None
    for a, before in snaps:
        if a.tobytes() != before:
            bad = Outcome("error", exc="InputMutated", where="call", origin="flox",
                          msg=f"the call changed an input array in place: now {a.tolist()!r}"[:300])
            if a.flags.writeable:  # put the values back so that later comparisons use the pristine input
                a[...] = np.frombuffer(before, dtype=a.dtype).reshape(a.shape)
    return bad


def call_reduce(array, *by, compute=True, **kw):
    """groupby_reduce (+ compute for lazy results) -> Outcome."""
    snaps = _snapshots(array, by)
    out = _call_reduce(array, *by, compute=compute, **kw)
    return _input_mutated(snaps) or out


def _call_reduce(array, *by, compute=True, **kw):
    import flox

    with warnings.catch_warnings():
        warnings.simplefilter("ignore")
        try:
            with np.errstate(all="ignore"):
                out = flox.groupby_reduce(array, *by, **kw)
        except REFUSALS as e:
            return Outcome("refused", exc=type(e).__name__, msg=str(e), where="call", origin=raised_in(e))
        except Exception as e:
            return Outcome("error", exc=type(e).__name__, msg=str(e), where="call", origin=raised_in(e))
        result, *groups = out
        if compute:
            try:
                import dask

                with np.errstate(all="ignore"):
                    result, groups = dask.compute(result, groups, scheduler="sync")
            except REFUSALS as e:
                return Outcome("refused", exc=type(e).__name__, msg=str(e), where="compute", origin=raised_in(e))
            except Exception as e:
                return Outcome("error", exc=type(e).__name__, msg=str(e), where="compute", origin=raised_in(e))
        return Outcome("ok", result=np.asarray(result) if compute else result, groups=list(groups))


def call_scan(array, *by, compute=True, **kw):
    snaps = _snapshots(array, by)
    out = _call_scan(array, *by, compute=compute, **kw)
    return _input_mutated(snaps) or out


def _call_scan(array, *by, compute=True, **kw):
    import flox

    with warnings.catch_warnings():
        warnings.simplefilter("ignore")
        try:
            with np.errstate(all="ignore"):
                result = flox.groupby_scan(array, *by, **kw)
        except REFUSALS as e:
            return Outcome("refused", exc=type(e).__name__, msg=str(e), where="call", origin=raised_in(e))
        except Exception as e:
            return Outcome("error", exc=type(e).__name__, msg=str(e), where="call", origin=raised_in(e))
        if compute and hasattr(result, "compute"):
            try:
                with np.errstate(all="ignore"):
                    result = result.compute(scheduler="sync")
            except REFUSALS as e:
                return Outcome("refused", exc=type(e).__name__, msg=str(e), where="compute", origin=raised_in(e))
            except Exception as e:
                return Outcome("error", exc=type(e).__name__, msg=str(e), where="compute", origin=raised_in(e))
        return Outcome("ok", result=np.asarray(result) if compute else result)


def expected_table(func, V, labels, order, requested=None, **kw):
    """Reference result of grouping the columns of V (B, n) by `labels` for the labels in `order`.

    Returns exp (B, G) (or (nq, B, G) for a vector q), scope (B, G) bool (False where NumPy is no
    oracle or the label has no member), present (G,) bool."""
    V = np.asarray(V)
    B = V.shape[0]
    mem = rm.members(labels, requested)
    q = kw.get("q", None)
    vecq = q is not None and not np.isscalar(q)
    G = len(order)
    cols, scopes, present = [], [], []
    for lab in order:
        lab_ = lab.item() if isinstance(lab, np.generic) else lab
        pos = mem.get(lab_)
        if not pos:
            shape = (len(q), B) if vecq else (B,)
            cols.append(np.full(shape, np.nan))
            scopes.append(np.zeros(B, dtype=bool))
            present.append(False)
            continue
        e, s = rm.reduce_members(func, V[:, pos], positions=pos, **kw)
        cols.append(np.asarray(e, dtype=object if e.dtype.kind in "OUS" else None))
        scopes.append(s)
        present.append(True)
    if G == 0:
        return np.zeros((B, 0)), np.zeros((B, 0), bool), np.zeros(0, bool)
    # unify dtypes (int results next to NaN place-holders become float; exact for small ints)
    exp = np.stack([np.asarray(c, dtype=float) if c.dtype.kind in "biuf" else c for c in cols], axis=-1)
    scope = np.stack(scopes, axis=-1)
    return exp, scope, np.array(present)


def compare(obs, exp, scope, rtol=1e-12, atol=0.0):
    """-> None if obs agrees with exp wherever scope is True, else (row, group) of the first
    disagreement (in row-major order).  A shape disagreement returns ("shape", obs.shape)."""
    obs = np.asarray(obs)
    if obs.shape != exp.shape:
        return ("shape", list(obs.shape), list(exp.shape))
    if obs.dtype.kind in "Mm":
        obs = obs.astype("int64")
    bad = rm.mismatch(obs, exp, rtol=rtol, atol=atol)
    bad = bad & np.broadcast_to(scope, bad.shape)
    if not bad.any():
        return None
    idx = np.argwhere(bad)[0]
    return tuple(int(i) for i in idx)


def make_dask(V, chunks):
    import dask.array as da

    V = np.asarray(V)
    d = da.from_array(V, chunks=chunks)
    if len(WATCH) > 4096:
        WATCH.clear()
    WATCH[d.name] = V
    return d


def blockwise_layout_ok(codes, chunks):
    """Documented precondition of an explicit method='blockwise' on 1-D labels: every group lies inside one
    block AFTER the automatic rechunk (the public flox.rechunk_for_blockwise, which groupby_reduce applies to
    the factorized codes, -1 = missing).  Returns (ok, chunks_after_rechunk)."""
    import dask.array as da
    import flox

    codes = np.asarray(codes)
    n = codes.shape[-1]
    dummy = da.zeros((n,), chunks=(tuple(chunks),))
    try:
        new = flox.rechunk_for_blockwise(dummy, -1, codes).chunks[-1]
    except Exception:
        return False, tuple(chunks)
    b = [0]
    for c in new:
        b.append(b[-1] + c)
    blocks = {}
    for i, lab in enumerate(codes.tolist()):
        if lab < 0:
            continue
        blk = max(j for j in range(len(new)) if b[j] <= i)
        blocks.setdefault(lab, set()).add(blk)
    return all(len(v) == 1 for v in blocks.values()), tuple(int(c) for c in new)
