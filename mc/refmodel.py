"""The reference model: a dict-of-lists group-by followed by the NumPy function the reduction is
named after.  Deliberately boring; no flox import."""

from __future__ import annotations

import warnings

import numpy as np

NAN_SKIPPING = {
    "nansum", "nanprod", "nanmean", "nanvar", "nanstd", "nanmax", "nanmin", "nanargmax", "nanargmin",
    "nanfirst", "nanlast", "nanmedian", "nanquantile", "count",
}  # fmt: skip


def isnull(a):
    a = np.asarray(a)
    if a.dtype.kind == "f":
        return np.isnan(a)
    if a.dtype.kind in "Mm":
        return np.isnat(a)
    if a.dtype.kind == "O":
        return np.array([x is None or (isinstance(x, float) and x != x) for x in a.ravel()]).reshape(a.shape)
    return np.zeros(a.shape, dtype=bool)


def label_is_missing(x):
    if x is None:
        return True
    if isinstance(x, (float, np.floating)):
        return x != x
    if isinstance(x, (np.datetime64, np.timedelta64)):
        return bool(np.isnat(x))
    return False


def members(labels, requested=None):
    """label -> positions (original order) for every non-missing label (restricted to `requested`)."""
    out = {}
    for i, lab in enumerate(labels):
        if label_is_missing(lab):
            continue
        if isinstance(lab, np.generic):
            lab = lab.item()
        if requested is not None and lab not in requested:
            continue
        out.setdefault(lab, []).append(i)
    return out


def _first_valid(M, last=False):
    """First (last) non-null member of every row; the null itself if the row has none."""
    nul = isnull(M)
    if last:
        M = M[:, ::-1]
        nul = nul[:, ::-1]
    idx = np.argmax(~nul, axis=1)  # 0 for an all-null row: that member is null, as wanted
    return M[np.arange(M.shape[0]), idx]


def reduce_members(func, M, positions=None, **kw):
    """Apply the NumPy reduction named `func` to the member matrix M (rows = batch, columns = the
    members of ONE group in original order).  Returns (expected (B,) or (nq,B), inscope (B,) bool).

    `positions`: global positions of the columns (needed for arg-reductions)."""
    M = np.asarray(M)
    B, m = M.shape
    inscope = np.ones(B, dtype=bool)
    nul = isnull(M)
    with warnings.catch_warnings(), np.errstate(all="ignore"):
        warnings.simplefilter("ignore")
        if func in ("sum", "nansum", "prod", "nanprod", "mean", "nanmean", "max", "nanmax", "min", "nanmin"):
            exp = getattr(np, func)(M, axis=1)
        elif func in ("var", "nanvar", "std", "nanstd"):
            exp = getattr(np, func)(M, axis=1, ddof=kw.get("ddof", 0))
        elif func in ("argmax", "argmin"):
            # NumPy is only taken as the oracle on groups free of NaN
            inscope = ~nul.any(axis=1)
            pos = getattr(np, func)(np.where(nul, 0, M), axis=1)
            exp = np.asarray(positions)[pos]
        elif func in ("nanargmax", "nanargmin"):
            inscope = ~nul.all(axis=1)
            filler = -np.inf if func == "nanargmax" else np.inf
            Mf = np.where(nul, filler, M.astype(float))
            # first occurrence of the extreme among non-NaN members
            pos = (np.argmax if func == "nanargmax" else np.argmin)(Mf, axis=1)
            # an all-(-inf) valid row: argmax of Mf would pick a NaN slot if it comes first -> fix
            valid_extreme = np.where(nul, False, Mf == Mf[np.arange(B), pos][:, None])
            pos = np.where(valid_extreme.any(axis=1), np.argmax(valid_extreme, axis=1), pos)
            exp = np.asarray(positions)[pos]
        elif func == "count":
            exp = (~nul).sum(axis=1)
        elif func == "first":
            exp = M[:, 0]
        elif func == "last":
            exp = M[:, -1]
        elif func == "nanfirst":
            exp = _first_valid(M)
        elif func == "nanlast":
            exp = _first_valid(M, last=True)
        elif func == "any":
            exp = np.any(M, axis=1)
        elif func == "all":
            exp = np.all(M, axis=1)
        elif func == "median":
            exp = np.quantile(M.astype(float), 0.5, axis=1, method="linear")
        elif func == "nanmedian":
            exp = np.nanquantile(M.astype(float), 0.5, axis=1, method="linear")
        elif func == "quantile":
            exp = np.quantile(M.astype(float), kw["q"], axis=1, method="linear")
        elif func == "nanquantile":
            exp = np.nanquantile(M.astype(float), kw["q"], axis=1, method="linear")
        else:
            raise KeyError(func)
    return np.asarray(exp), inscope


def mismatch(obs, exp, rtol=1e-12, atol=0.0):
    """Boolean array: where do obs and exp differ (NaN == NaN, inf == inf, finite within rtol)."""
    obs = np.asarray(obs)
    exp = np.asarray(exp)
    if obs.shape != exp.shape:
        raise ShapeMismatch(f"shape {obs.shape} != {exp.shape}")
    if obs.dtype.kind in "Mm" or exp.dtype.kind in "Mm":
        o = obs.astype("int64") if obs.dtype.kind in "Mm" else obs
        e = exp.astype("int64") if exp.dtype.kind in "Mm" else exp
        return o != e
    if obs.dtype.kind in "biu" and exp.dtype.kind in "biu":
        return obs.astype(object) != exp.astype(object) if "u" in (obs.dtype.kind + exp.dtype.kind) else obs != exp
    if obs.dtype.kind in "OUS" or exp.dtype.kind in "OUS":
        return np.array([not _same_obj(a, b) for a, b in zip(obs.ravel(), exp.ravel())]).reshape(obs.shape)
    o = obs.astype(np.float64)
    e = exp.astype(np.float64)
    no, ne = np.isnan(o), np.isnan(e)
    bad = no != ne
    fin = ~no & ~ne
    with np.errstate(all="ignore"):
        both_finite = np.isfinite(o) & np.isfinite(e)  # an infinity is only ever equal to the same infinity
        close = (o == e) | (both_finite & (np.abs(o - e) <= rtol * np.maximum(np.abs(o), np.abs(e)) + atol))
    return bad | (fin & ~close)


def _same_obj(a, b):
    if label_is_missing(a) and label_is_missing(b):
        return True
    try:
        return bool(a == b)
    except Exception:
        return False


class ShapeMismatch(Exception):
    pass


def same_labels(got, want):
    got = list(np.asarray(got).tolist()) if not isinstance(got, list) else got
    want = list(want)
    if len(got) != len(want):
        return False
    return all(_same_obj(a, b) for a, b in zip(got, want))


def rtol_for(dtype, func=""):
    dt = np.dtype(dtype)
    if dt == np.float32:
        return 2e-5 if ("var" in func or "std" in func) else 4e-6
    return 1e-9 if ("var" in func or "std" in func) else 1e-12


def selftest():
    """Validate the reference model against plain NumPy calls written out by hand."""
    v = np.array([[1.0, np.nan, 3.0, -2.0]])
    assert members([0, 1, 0, float("nan")]) == {0: [0, 2], 1: [1]}
    assert reduce_members("sum", v[:, [0, 2]])[0][0] == 4.0
    assert np.isnan(reduce_members("max", v[:, [0, 1]])[0][0])
    assert reduce_members("nanmax", v[:, [0, 1]])[0][0] == 1.0
    assert reduce_members("count", v[:, [0, 1]])[0][0] == 1
    assert reduce_members("nanlast", v[:, [0, 1]])[0][0] == 1.0
    assert reduce_members("nanfirst", v[:, [1, 2]])[0][0] == 3.0
    e, s = reduce_members("argmax", v[:, [0, 2, 3]], positions=[0, 2, 3])
    assert e[0] == 2 and s[0]
    e, s = reduce_members("argmax", v[:, [0, 1]], positions=[0, 1])
    assert not s[0]
    e, s = reduce_members("nanargmin", v[:, [1, 2, 3]], positions=[1, 2, 3])
    assert e[0] == 3 and s[0]
    e, s = reduce_members("nanargmax", np.array([[np.nan, -np.inf, -np.inf]]), positions=[4, 5, 6])
    assert e[0] == 5 and s[0]
    assert reduce_members("nanquantile", v[:, [0, 1, 2]], q=0.5)[0][0] == 2.0
    assert reduce_members("var", v[:, [0, 2]], ddof=1)[0][0] == 2.0
    assert not mismatch(np.array([np.nan, np.inf, 1.0]), np.array([np.nan, np.inf, 1.0])).any()
    assert mismatch(np.array([np.nan, 1.0]), np.array([0.0, 1.0]))[0]
    assert mismatch(np.array([-np.inf, np.inf]), np.array([-5.0, 1e300]), rtol=1e-9).all()
    assert not mismatch(np.array([-np.inf, np.inf]), np.array([-np.inf, np.inf]), rtol=1e-9).any()
    return True
