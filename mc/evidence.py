"""Writes /verif/evidence/<id>.json and validates it against EVIDENCE.schema.json.

/venv has no jsonschema, so validation is delegated to the tooling interpreter (python3-vt); if
that is unavailable a structural check of the keys the model_checking level requires is done here."""

from __future__ import annotations

import json
import os
import shutil
import subprocess

VERIF = os.path.dirname(os.path.dirname(os.path.abspath(__file__)))
SCHEMA = "/root/.vp/EVIDENCE.schema.json"

_VALIDATE = r"""
import json, sys, jsonschema
schema = json.load(open(sys.argv[1])); doc = json.load(open(sys.argv[2]))
jsonschema.Draft202012Validator(schema).validate(doc)
"""


def structural_check(ev):
    for k in ("property_id", "tier", "seed", "level", "coverage", "wall_s"):
        assert k in ev, k
    cov = ev["coverage"]
    assert ev["tier"] in ("quick", "thorough")
    assert isinstance(ev["seed"], int)
    if ev["level"] == "model_checking":
        assert cov["states"] >= 1 and cov["transitions"] >= 1
        assert cov["traces_validated_against_impl"] >= 0
        assert isinstance(cov["samples"], list) and len(cov["samples"]) >= 1
    assert cov["evaluations"] >= 1 and cov["distinct_nontrivial"] >= 2


def write(pid, ev):
    # VERIF_EVIDENCE_DIR: mutation experiments must not overwrite the evidence of the real tree
    evdir = os.environ.get("VERIF_EVIDENCE_DIR") or os.path.join(VERIF, "evidence")
    os.makedirs(evdir, exist_ok=True)
    path = os.path.join(evdir, f"{pid}.json")
    tmp = path + ".tmp"
    with open(tmp, "w") as f:
        json.dump(ev, f, indent=1, sort_keys=True)
    structural_check(ev)
    vt = shutil.which("python3-vt")
    if vt and os.path.exists(SCHEMA):
        p = subprocess.run([vt, "-c", _VALIDATE, SCHEMA, tmp], capture_output=True, text=True)
        if p.returncode != 0:
            raise SystemExit(f"evidence for {pid} does not validate:\n{p.stderr[-2000:]}")
    os.replace(tmp, path)
    return path
