"""Builders of the real flox graphs explored by E3/E4 (shared by C03 and C13).

Every config is a plain dict so that it can be a shard / a replay artefact:
   kind: reduce | scan ; func ; method ; engine ; dtype ; labels (list, NaN = missing) ; chunks ; batch_blocks ;
   split_every ; labels_dask ; expected (None | list) ; optimize (bool)"""

from __future__ import annotations

import numpy as np

NAN = float("nan")


def values_for(dtype, n, batch):
    """Deterministic data with negatives, ties, a NaN (floats) in more than one block."""
    base = np.array([1.0, -2.0, 3.0, 3.0, NAN, -2.0, 0.0, 5.0, NAN, 1.0, -7.0, 2.0])[:n]
    if n > 12:
        base = np.resize(base, n)
    if np.dtype(dtype).kind in "iu":
        base = np.where(np.isnan(base), 4, base)
    rows = [np.roll(base, r) * (1 if r % 2 == 0 else -1) for r in range(batch)]
    return np.array(rows, dtype=dtype)


def build(cfg):
    """-> (lazy result collection(s) as tuple, user_inputs dict name->ndarray, eager reference callable)"""
    import dask
    import dask.array as da
    import flox

    labels = np.array(cfg["labels"], dtype=cfg.get("labels_dtype", float))
    n = len(labels)
    batch = 2 * cfg.get("batch_blocks", 1)
    V = values_for(cfg.get("dtype", "float64"), n, batch)
    bch = (batch,) if cfg.get("batch_blocks", 1) == 1 else (batch // 2, batch - batch // 2)
    if cfg.get("one_dim"):
        V = np.ascontiguousarray(V[0])  # no batch axis: every block is a contiguous view of the user's array
        arr = da.from_array(V, chunks=(tuple(cfg["chunks"]),))
    else:
        arr = da.from_array(V, chunks=(bch, tuple(cfg["chunks"])))
    by = da.from_array(labels, chunks=(tuple(cfg["chunks"]),)) if cfg.get("labels_dask") else labels
    from . import graphx

    extra_by, extra_by_np = (), ()
    if cfg.get("value_kind") == "datetime":
        V = (np.nan_to_num(V, nan=2.0).astype("int64") * 86400).astype("datetime64[s]")
        if cfg.get("nat"):
            V[:, 1] = np.datetime64("NaT")
        arr = da.from_array(V, chunks=arr.chunks)
    if cfg.get("labels2d") is not None:
        # 2-D labels over the two trailing axes of a (batch, r, c) array, chunked along both label axes
        lab2d = np.array(cfg["labels2d"], dtype=float)
        r, c = lab2d.shape
        V = np.stack([values_for(cfg.get("dtype", "float64"), r * c, 1)[0].reshape(r, c) * (i + 1) for i in range(2)])
        arr = da.from_array(V, chunks=((2,), tuple(cfg["chunks2d"][0]), tuple(cfg["chunks2d"][1])))
        labels = lab2d
        by = da.from_array(lab2d, chunks=(tuple(cfg["chunks2d"][0]), tuple(cfg["chunks2d"][1]))) if cfg.get("labels_dask") else lab2d
    if cfg.get("by2") is not None:
        lab2 = np.array(cfg["by2"], dtype=float)
        extra_by_np = (lab2,)
        extra_by = (da.from_array(lab2, chunks=(tuple(cfg["chunks"]),)) if cfg.get("by2_dask") else lab2,)
    before = dict(array=graphx.digest(V), labels=graphx.digest(labels), **({"labels2": graphx.digest(extra_by_np[0])} if extra_by_np else {}))
    dcfg = {}
    if cfg.get("split_every") is not None:
        dcfg["split_every"] = cfg["split_every"]
    with dask.config.set(**dcfg):
        if cfg["kind"] == "reduce":
            kw = dict(func=cfg["func"], method=cfg.get("method"), engine=cfg.get("engine"))
            if cfg.get("expected") is not None:
                if cfg.get("expected_kind") == "rangeindex":
                    import pandas as pd

                    kw["expected_groups"] = pd.RangeIndex(cfg["expected"])
                else:
                    kw["expected_groups"] = np.array(cfg["expected"], dtype=float)
                kw["fill_value"] = cfg.get("fill_value", -99)
                if kw["fill_value"] == "NA":
                    from flox import xrdtypes

                    kw["fill_value"] = xrdtypes.NA  # the sentinel flox's own tests pass: "fill with the dtype's missing value"
            if cfg.get("user_agg"):
                kw["func"] = user_aggregation(cfg["user_agg"])
            if cfg.get("finalize_kwargs"):
                kw["finalize_kwargs"] = cfg["finalize_kwargs"]
            if cfg.get("by2") is not None:
                kw["expected_groups"] = (np.array(cfg["expected"], dtype=float), np.array(cfg["expected2"], dtype=float))
                kw["isbin"] = (False, bool(cfg.get("isbin2")))
            for opt in ("axis", "min_count", "reindex", "sort"):
                if cfg.get(opt) is not None:
                    kw[opt] = tuple(cfg[opt]) if opt == "axis" and isinstance(cfg[opt], list) else cfg[opt]
            result, *groups = flox.groupby_reduce(arr, by, *extra_by, **kw)
            colls = (result,) + tuple(g for g in groups if hasattr(g, "__dask_graph__"))

            def eager():
                kw2 = dict(kw)
                kw2.pop("method", None)
                r, *g = flox.groupby_reduce(V, labels, *extra_by_np, **kw2)
                return r
        else:
            result = flox.groupby_scan(arr, by, func=cfg["func"])
            colls = (result,)

            def eager():
                return flox.groupby_scan(V, labels, func=cfg["func"])
        if cfg.get("optimize"):
            colls = dask.optimize(*colls)
    return colls, dict(array=V, labels=labels, _before=before, **({"labels2": extra_by_np[0]} if extra_by_np else {})), eager


_USER_AGGS = {}


def user_aggregation(name):
    """User-defined Aggregation objects, ONE object per name for the whole process (so that reuse across calls is real)."""
    import flox

    if name not in _USER_AGGS:
        if name == "sumsq":
            _USER_AGGS[name] = flox.Aggregation("sumsq", numpy="nansum_of_squares", chunk="nansum_of_squares", combine="sum", fill_value=0)
        elif name == "range":
            _USER_AGGS[name] = flox.Aggregation("range", numpy=None, chunk=("nanmax", "nanmin"), combine=("nanmax", "nanmin"),
                                                finalize=_range_finalize, fill_value=(-np.inf, np.inf), final_fill_value=np.nan)
        else:
            raise KeyError(name)
    return _USER_AGGS[name]


def _range_finalize(mx, mn):
    return mx - mn


def reduce_cfgs(k_values, split_everys=(None, 2), batch_blocks=(1, 2), bb2_max_k=3):
    """Representative reductions by combine kind x strategies, on k blocks."""
    out = []
    patterns = {
        3: ([0, 1, 0, NAN, 1, 0], (2, 2, 2)),
        4: ([0, 1, 0, 0, 2, NAN, 0, 1], (2, 2, 2, 2)),
        5: ([0, 1, 0, 1, NAN, 0, 1], (1, 2, 1, 2, 1)),
        6: ([0, 1, 0, 1, 0, NAN, 0, 1], (1, 2, 1, 1, 2, 1)),
    }
    kinds = [
        ("sum", "map-reduce", "float64", "numpy"), ("nanmax", "cohorts", "float64", "numpy"), ("var", "map-reduce", "float64", "flox"),
        ("nanfirst", "cohorts", "float64", "numpy"), ("argmax", "map-reduce", "float64", "numpy"),
        ("nanargmin", "cohorts", "float64", "numpy"), ("nanlast", "map-reduce", "int64", "numpy"),
        ("count", "cohorts", "float64", "flox"), ("nanmean", "map-reduce", "float64", "numbagg"), ("nansum", None, "float64", None),
    ]  # fmt: skip
    for k in k_values:
        labels, chunks = patterns[k]
        for func, method, dtype, engine in kinds:
            for se in split_everys:
                if se is not None and k <= se:
                    continue
                for bb in batch_blocks:
                    if bb == 2 and (se is not None or k > bb2_max_k):
                        continue  # two batch blocks square the number of ideals: small k only
                    out.append(dict(kind="reduce", func=func, method=method, dtype=dtype, engine=engine, labels=labels,
                                    chunks=list(chunks), split_every=se, batch_blocks=bb))
    # unknown (dask) labels, expected groups with absent member, blockwise, order statistics (blockwise only)
    out.append(dict(kind="reduce", func="sum", method="map-reduce", dtype="float64", engine="numpy", labels=[0, 1, 0, NAN, 1, 0],
                    chunks=[2, 2, 2], labels_dask=True, batch_blocks=1))
    out.append(dict(kind="reduce", func="nanmin", method="map-reduce", dtype="float64", engine="numpy", labels=[0, 1, 0, NAN, 1, 0],
                    chunks=[2, 2, 2], labels_dask=True, expected=[0, 1, 2], batch_blocks=2))
    out.append(dict(kind="reduce", func="prod", method="cohorts", dtype="float64", engine="numpy", labels=[0, 1, 0, NAN, 1, 0],
                    chunks=[2, 1, 1, 2], expected=[2, 0, 1], batch_blocks=1))
    out.append(dict(kind="reduce", func="nanstd", method="blockwise", dtype="float64", engine="numpy", labels=[0, 0, 1, 1, 2, NAN],
                    chunks=[2, 2, 2], batch_blocks=2))
    out.append(dict(kind="reduce", func="nanquantile", method="blockwise", dtype="float64", engine=None, labels=[0, 0, 1, 1, 2, NAN],
                    chunks=[2, 2, 2], batch_blocks=1, finalize_kwargs=dict(q=[0.25, 0.75])))
    for f in ("nanmedian", "median", "nansum", "nanmax"):
        out.append(dict(kind="reduce", func=f, method="blockwise", dtype="float64", engine=None, labels=[0, 0, 0, 1, 1, 1], chunks=[3, 3], batch_blocks=1,
                        one_dim=True))
    out.append(dict(kind="reduce", func="first", method=None, dtype="float64", engine=None, labels=[0, 0, 1, 1, 2, 2],
                    chunks=[2, 2, 2], batch_blocks=1))
    out.append(dict(kind="reduce", func="any", method="map-reduce", dtype="bool", engine="numbagg", labels=[0, 1, 0, NAN, 1, 0],
                    chunks=[2, 2, 2], batch_blocks=1))
    # integer labels with a user-supplied RangeIndex shorter than the largest label (codes are rewritten to -1)
    for ld in (False, True):
        for method in ("map-reduce", "cohorts"):
            if ld and method == "cohorts":
                continue
            out.append(dict(kind="reduce", func="nansum", method=method, dtype="float64", engine="numpy", labels=[0, 1, 5, 2, 1, 7],
                            labels_dtype="int64", chunks=[2, 2, 2], labels_dask=ld, expected=3, expected_kind="rangeindex", batch_blocks=1))
    # a user-defined Aggregation object
    out.append(dict(kind="reduce", func="sumsq", user_agg="sumsq", method="map-reduce", dtype="float64", engine="numpy",
                    labels=[0, 1, 0, NAN, 1, 0], chunks=[2, 2, 2], batch_blocks=1, expected=[0, 1, 2], fill_value=-1))
    return out


def scan_cfgs(k_values, bb2_max_k=3):
    out = []
    # sorted labels and a NaN that is fillable inside a block (the in-block kernels see already ordered codes)
    for func in ("nancumsum", "ffill", "bfill"):
        for one_dim in (False, True):
            out.append(dict(kind="scan", func=func, labels=[0, 0, 0, 1, 1, 1, 1], chunks=[3, 4], dtype="float64", batch_blocks=1, one_dim=one_dim))
    for k in k_values:
        labels = ([0, 1, 0, 1, NAN, 0, 1, 1, 0, 0, 1, 0])[: k + 2]
        chunks = [2] + [1] * (k - 2) + [2] if k >= 2 else [k + 2]
        for func in ("nancumsum", "ffill", "bfill"):
            lab = [0 if (x != x and func == "nancumsum") else x for x in labels]
            for bb in (1, 2):
                if bb == 2 and k > bb2_max_k:
                    continue
                out.append(dict(kind="scan", func=func, labels=lab, chunks=chunks, dtype="float64", batch_blocks=bb))
    return out


ALL_FUNCS = ("sum", "nansum", "prod", "nanprod", "mean", "nanmean", "var", "nanvar", "std", "nanstd", "max", "nanmax", "min", "nanmin",
             "argmax", "nanargmax", "argmin", "nanargmin", "first", "nanfirst", "last", "nanlast", "count", "any", "all")


def wide_cfgs(tier="quick"):
    """Breadth instead of depth: EVERY registry reduction x engine x strategy on one 3-block graph (two dtypes), plus graph
    classes the depth sweep lacks: a second grouper (numpy or dask, categorical or binned), 2-D labels chunked along both
    reduced axes, datetime data, explicit min_count / reindex=False / sort=False."""
    out = []
    lab, ch = [0, 1, 0, NAN, 1, 0], [2, 2, 2]
    for func in ALL_FUNCS:
        for engine in ("numpy", "flox", "numbagg"):
            for method in ("map-reduce", "cohorts"):
                for dtype in ("float64", "int64") if tier == "thorough" or engine != "numbagg" else ("float64",):
                    d = "bool" if func in ("any", "all") else dtype
                    out.append(dict(kind="reduce", func=func, method=method, dtype=d, engine=engine, labels=lab, chunks=ch, batch_blocks=1, wide=True))
    for func in ("nansum", "nanmax", "count", "nanargmax", "nanfirst", "nanvar"):
        for by2_dask, ld in ((False, False), (True, False), (True, True)):
            for isbin2 in (False, True):
                out.append(dict(kind="reduce", func=func, method="map-reduce", dtype="float64", engine="numpy", labels=[0, 1, 0, 1, 1, 0], labels_dask=ld,
                                by2=[10, 10, 20, NAN, 10, 30], by2_dask=by2_dask, expected=[0, 1], expected2=[5, 15, 25, 35] if isbin2 else [10, 20, 30],
                                isbin2=isbin2, chunks=ch, batch_blocks=1, wide=True))
        for ld in (False, True):
            for axis in ([-2, -1], [-1]):
                if ld and len(axis) == 1:
                    continue  # unknown labels along a proper subset of their axes are refused
                out.append(dict(kind="reduce", func=func, method="map-reduce", dtype="float64", engine="numpy", labels=[0], labels2d=[[0, 1, 0], [NAN, 1, 2]],
                                chunks=[1, 1], chunks2d=[[1, 1], [2, 1]], axis=axis, labels_dask=ld, expected=None if ld else [0, 1, 2], batch_blocks=1, wide=True))
    for func in ("max", "nanmin", "first", "nanlast", "count", "mean", "nanargmax"):
        for method in ("map-reduce", "cohorts"):
            out.append(dict(kind="reduce", func=func, method=method, engine=None, labels=lab, chunks=ch, batch_blocks=1, value_kind="datetime",
                            nat=func.startswith("nan") or func == "count", wide=True))
    for func in ("sum", "nanmax", "nanmean", "count"):
        for method in ("map-reduce", "cohorts", "blockwise"):
            # the NA sentinel as fill_value with an absent requested label (3): must survive the pickle round trip of the tasks
            out.append(dict(kind="reduce", func=func, method=method, dtype="float64", engine="numpy", labels=[0, 0, 1, 1, 2, NAN] if method == "blockwise" else lab,
                            chunks=ch, batch_blocks=1, expected=[0, 1, 2, 3], fill_value="NA", wide=True))
    for func in ("nansum", "nanmax", "nanmean", "nanargmin"):
        out.append(dict(kind="reduce", func=func, method="map-reduce", dtype="float64", engine="numpy", labels=lab, chunks=ch, batch_blocks=1,
                        min_count=2, expected=[0, 1, 2], wide=True))
        out.append(dict(kind="reduce", func=func, method="map-reduce", dtype="float64", engine="numpy", labels=[1, 0, 2, NAN, 1, 2], chunks=ch, batch_blocks=1,
                        reindex=False, sort=False, wide=True))
    return out
