"""E3 task-graph explorer.

State  = an order ideal (down-set) of the task DAG of a REAL flox graph (the set of executed tasks); the value
         store is a function of the ideal as long as every transition passes its checks, which is what is verified.
Moves  = execute one ready task on the stored values (the task object itself is called: real flox code).
Checks per transition: (purity) digests of all input values unchanged after the call; (determinism / order
independence) output digest equals the first digest ever seen for that task.  BFS over all ideals = all
topological execution orders.  Extra transitions: re-execution of every finished task at the top ideal (lost
worker), cloudpickle round trip of task + inputs (shipping to another process), and a run with every input
buffer marked read-only (an in-place write raises at the faulty line)."""

from __future__ import annotations

import collections
import dataclasses
import hashlib
import pickle

import numpy as np


# ------------------------------------------------------------------------------------------ digests


def _feed(h, x, depth=0):
    import pandas as pd

    if depth > 12:
        h.update(b"<deep>")
        return
    if isinstance(x, np.ndarray):
        h.update(b"nd" + str(x.dtype).encode() + str(x.shape).encode())
        if x.dtype.kind == "O":
            for v in x.ravel().tolist():
                _feed(h, v, depth + 1)
        else:
            h.update(np.ascontiguousarray(x).tobytes())
    elif isinstance(x, dict):
        h.update(b"dict%d" % len(x))
        for k in sorted(x, key=repr):
            h.update(repr(k).encode())
            _feed(h, x[k], depth + 1)
    elif isinstance(x, (list, tuple)):
        h.update(type(x).__name__.encode() + b"%d" % len(x))
        for v in x:
            _feed(h, v, depth + 1)
    elif isinstance(x, pd.Index):
        h.update(b"idx" + type(x).__name__.encode())
        _feed(h, np.asarray(x), depth + 1)
    elif dataclasses.is_dataclass(x) and not isinstance(x, type):
        h.update(b"dc" + type(x).__name__.encode())
        for f in dataclasses.fields(x):
            h.update(f.name.encode())
            _feed(h, getattr(x, f.name), depth + 1)
    elif isinstance(x, (np.generic,)):
        h.update(b"s" + str(x.dtype).encode() + x.tobytes())
    elif isinstance(x, float):
        h.update(b"f" + np.float64(x).tobytes())
    elif x is None or isinstance(x, (int, str, bool, bytes, complex)):
        h.update(repr(x).encode())
    else:
        h.update(b"obj" + type(x).__name__.encode())
        try:
            h.update(pickle.dumps(x, protocol=4))
        except Exception:
            h.update(repr(x).encode())


def digest(x):
    h = hashlib.blake2b(digest_size=12)
    _feed(h, x)
    return h.hexdigest()


def arrays_in(x, out=None, depth=0):
    """All ndarrays reachable from a value (for the read-only pass)."""
    if out is None:
        out = []
    if depth > 12:
        return out
    if isinstance(x, np.ndarray):
        out.append(x)
    elif isinstance(x, dict):
        for v in x.values():
            arrays_in(v, out, depth + 1)
    elif isinstance(x, (list, tuple)):
        for v in x:
            arrays_in(v, out, depth + 1)
    elif dataclasses.is_dataclass(x) and not isinstance(x, type):
        for f in dataclasses.fields(x):
            arrays_in(getattr(x, f.name), out, depth + 1)
    return out


def brief(x, n=160):
    try:
        return repr(x).replace("\n", " ")[:n]
    except Exception:
        return f"<{type(x).__name__}>"


# ------------------------------------------------------------------------------------------ the graph


class TaskGraph:
    def __init__(self, collections_):
        """collections_: one lazy dask collection or a tuple of them."""
        import dask
        from dask._task_spec import DataNode, convert_legacy_graph

        if not isinstance(collections_, (tuple, list)):
            collections_ = (collections_,)
        merged = {}
        for c in collections_:
            merged.update(dict(c.__dask_graph__()))
        self.out_keys = [k for c in collections_ for k in dask.core.flatten(c.__dask_keys__())]
        dsk = convert_legacy_graph(merged)
        # cull to what the outputs need
        need, stack = set(), list(self.out_keys)
        while stack:
            k = stack.pop()
            if k in need:
                continue
            need.add(k)
            stack.extend(dsk[k].dependencies)
        self.dsk = {k: dsk[k] for k in dsk if k in need}
        self.data = {k: t() for k, t in self.dsk.items() if isinstance(t, DataNode)}
        self.tasks = [k for k in self.dsk if k not in self.data]
        self.deps = {k: frozenset(d for d in self.dsk[k].dependencies if d not in self.data) for k in self.tasks}
        self.alldeps = {k: tuple(sorted(self.dsk[k].dependencies, key=repr)) for k in self.tasks}
        self.index = {k: i for i, k in enumerate(self.tasks)}

    def topo(self):
        done, order = set(), []
        remaining = list(self.tasks)
        while remaining:
            for k in list(remaining):
                if self.deps[k] <= done:
                    done.add(k)
                    order.append(k)
                    remaining.remove(k)
        return order

    def run_task(self, k, store):
        t = self.dsk[k]
        vals = {d: (self.data[d] if d in self.data else store[d]) for d in self.alldeps[k]}
        with np.errstate(all="ignore"):
            return t(vals)


class Finding(Exception):
    def __init__(self, kind, task, detail):
        super().__init__(kind)
        self.kind, self.task, self.detail = kind, task, detail


def explore_orders(g: TaskGraph, max_states=200000, reexec=True, counters=None):
    """BFS over all order ideals.  Returns dict(states, transitions, linear_extensions, capped, final_store).
    Raises Finding on the first impure / order-dependent / nondeterministic task."""
    counters = counters if counters is not None else collections.Counter()
    store, first = {}, {}
    data_digest = {k: digest(v) for k, v in g.data.items()}
    val_digest = {}
    n = len(g.tasks)
    idx = g.index
    empty = 0
    seen = {empty: 1}  # ideal bitmask -> number of linear extensions reaching it
    frontier = collections.deque([empty])
    states = transitions = 0
    capped = False
    depbits = {k: sum(1 << idx[d] for d in g.deps[k]) for k in g.tasks}

    def execute(k, how):
        nonlocal transitions
        transitions += 1
        out = g.run_task(k, store)
        # purity: every input value is bit-identical after the call
        for d in g.alldeps[k]:
            now = digest(g.data[d] if d in g.data else store[d])
            was = data_digest[d] if d in g.data else val_digest[d]
            if now != was:
                raise Finding("input-mutated", k, dict(input=d, how=how, value_now=brief(g.data[d] if d in g.data else store[d])))
        dg = digest(out)
        if k not in first:
            first[k] = dg
            store[k] = out
            val_digest[k] = dg
        elif dg != first[k]:
            raise Finding("output-differs", k, dict(how=how, first=brief(store[k]), now=brief(out)))
        return out

    while frontier:
        ideal = frontier.popleft()
        states += 1
        if states > max_states:
            capped = True
            break
        for k in g.tasks:
            b = 1 << idx[k]
            if ideal & b or (depbits[k] & ~ideal):
                continue
            # all dependencies are in the ideal: their values are in the store (computed on an earlier level)
            execute(k, "order")
            nxt = ideal | b
            if nxt in seen:
                seen[nxt] += seen[ideal]
            else:
                seen[nxt] = seen[ideal]
                frontier.append(nxt)
    top = (1 << n) - 1
    if reexec and not capped:
        # lost-worker model: any finished task may be executed again, in any position
        for k in list(reversed(g.topo())) + g.topo():
            execute(k, "re-execution")
            counters["reexecutions"] += 1
    return dict(states=states, transitions=transitions, linear_extensions=seen.get(top, 0), capped=capped, store=store,
                ntasks=n)


def pickle_roundtrip(g: TaskGraph, store, counters=None):
    """Every task and its inputs survive a cloudpickle round trip with unchanged behaviour."""
    import cloudpickle

    counters = counters if counters is not None else collections.Counter()
    for k in g.topo():
        t = g.dsk[k]
        try:
            t2 = cloudpickle.loads(cloudpickle.dumps(t))
            vals = {d: cloudpickle.loads(cloudpickle.dumps(g.data[d] if d in g.data else store[d])) for d in g.alldeps[k]}
        except Exception as e:
            raise Finding("not-serialisable", k, dict(exc=type(e).__name__, msg=str(e)[:200]))
        with np.errstate(all="ignore"):
            out = t2(vals)
        counters["pickled_executions"] += 1
        if digest(out) != digest(store[k]):
            raise Finding("pickled-task-differs", k, dict(original=brief(store[k]), shipped=brief(out)))


def readonly_run(g: TaskGraph, counters=None):
    """Execute in topological order with every input buffer read-only: an in-place write into an input raises."""
    counters = counters if counters is not None else collections.Counter()
    store = {}
    frozen = []
    try:
        for v in g.data.values():
            for a in arrays_in(v):
                if a.flags.writeable:
                    a.flags.writeable = False
                    frozen.append(a)
        for k in g.topo():
            try:
                out = g.run_task(k, store)
            except ValueError as e:
                if "read-only" in str(e):
                    raise Finding("writes-into-input", k, dict(msg=str(e)[:200]))
                raise
            for a in arrays_in(out):
                if a.flags.writeable:
                    try:
                        a.flags.writeable = False
                        frozen.append(a)
                    except ValueError:
                        pass
            store[k] = out
            counters["readonly_executions"] += 1
    finally:
        for a in frozen:
            try:
                a.flags.writeable = True
            except ValueError:
                pass
    return store
