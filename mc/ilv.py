"""E4 interleaving explorer: two REAL tasks of a flox graph that share an input object run in two threads under
a cooperative scheduler; switch points are the source lines of flox (sys.settrace 'line' events in files under
<repo>/flox).  Iterative preemption bounding: bound 0 (both serial orders), bound 1 (every line of either task
as the single preemption point), bound 2 (thorough; call-level granularity).  Oracle: both outputs equal their
sequential outputs, the shared inputs are bit-identical afterwards, no exception.  Every schedule that is
reported is first replayed a second time and must reproduce exactly (otherwise: nondeterminism not owned)."""

from __future__ import annotations

import os
import sys
import threading

import numpy as np

from . import graphcfg, graphx

FLOX_DIR = None


def _flox_dir():
    global FLOX_DIR
    if FLOX_DIR is None:
        import flox

        FLOX_DIR = os.path.dirname(os.path.realpath(flox.__file__)) + os.sep
    return FLOX_DIR


class Runner(threading.Thread):
    """Runs one task; pauses (hands the baton back) when its step counter reaches pause_at."""

    def __init__(self, fn, granularity):
        super().__init__(daemon=True)
        self.fn = fn
        self.granularity = granularity
        self.steps = 0
        self.pause_at = None
        self.paused = threading.Event()
        self.resume = threading.Event()
        self.finished = False
        self.result = None
        self.error = None
        self.where = None

    def _local(self, frame, event, arg):
        if event == "line" and self.granularity == "line":
            self._step(frame)
        return self._local

    def _global(self, frame, event, arg):
        if event == "call" and frame.f_code.co_filename.startswith(_flox_dir()):
            if self.granularity == "call":
                self._step(frame)
            return self._local
        return None

    def _step(self, frame):
        self.steps += 1
        if self.pause_at is not None and self.steps == self.pause_at:
            self.where = f"{os.path.basename(frame.f_code.co_filename)}:{frame.f_lineno}"
            self.paused.set()
            self.resume.wait()
            self.resume.clear()

    def run(self):
        self.resume.wait()
        self.resume.clear()
        sys.settrace(self._global)
        try:
            with np.errstate(all="ignore"):
                self.result = self.fn()
        except BaseException as e:  # noqa
            self.error = e
        finally:
            sys.settrace(None)
            self.finished = True
            self.paused.set()

    def go(self, pause_at):
        """Let the thread run until its step counter reaches pause_at (None = to completion)."""
        self.pause_at = pause_at
        self.paused.clear()
        self.resume.set()
        if not self.paused.wait(timeout=60):
            raise RuntimeError("interleaving harness: thread did not reach its switch point within 60 s")
        return self.finished


def execute(make_tasks, schedule, granularity):
    """schedule = (first, s1[, s2]): thread `first` runs s1 steps, then the other runs s2 steps (or to completion),
    then `first` completes, then the other completes.  Returns observation dict."""
    fns, shared = make_tasks()
    thr = [Runner(fns[0], granularity), Runner(fns[1], granularity)]
    for t in thr:
        t.start()
    a = schedule[0]
    b = 1 - a
    s1 = schedule[1] if len(schedule) > 1 else None
    s2 = schedule[2] if len(schedule) > 2 else None
    trace = []
    done_a = thr[a].go(s1)
    trace.append((a, thr[a].steps, thr[a].where if not done_a else "end"))
    if not done_a:
        done_b = thr[b].go(s2)
        trace.append((b, thr[b].steps, thr[b].where if not done_b else "end"))
        thr[a].go(None)
        trace.append((a, thr[a].steps, "end"))
        if not done_b:
            thr[b].go(None)
            trace.append((b, thr[b].steps, "end"))
    else:
        thr[b].go(None)
        trace.append((b, thr[b].steps, "end"))
    for t in thr:
        t.join(timeout=10)
    return dict(
        steps=(thr[0].steps, thr[1].steps),
        outputs=tuple(graphx.digest(t.result) if t.error is None else f"EXC:{type(t.error).__name__}:{str(t.error)[:120]}" for t in thr),
        shared=tuple(graphx.digest(v) for v in shared),
        trace=trace,
        preempted=not done_a,
    )


def find_pairs(g: graphx.TaskGraph, limit, weight=None):
    """Pairs of tasks that can run concurrently and share an input; label-block sharers first."""
    import itertools

    anc = {}
    for k in g.topo():
        s = set()
        for d in g.deps[k]:
            s |= anc[d] | {d}
        anc[k] = s
    pairs = []
    for t1, t2 in itertools.combinations(g.tasks, 2):
        if t1 in anc[t2] or t2 in anc[t1]:
            continue
        common = set(g.alldeps[t1]) & set(g.alldeps[t2])
        if not common:
            continue
        # heaviest pairs first (weight = traced flox lines of the lighter task): trivial pass-through tasks last
        score = -min(weight.get(t1, 0), weight.get(t2, 0)) if weight else (0 if any(c in g.data for c in common) else 1)
        pairs.append((score, repr(t1), repr(t2), t1, t2, sorted(common, key=repr)))
    pairs.sort(key=lambda p: p[:3])
    # spread over layers: at most 2 pairs per (layer1, layer2)
    out, per = [], {}
    for p in pairs:
        lay = (str(p[3][0]).rsplit("-", 1)[0], str(p[4][0]).rsplit("-", 1)[0])
        if per.get(lay, 0) >= 2:
            continue
        per[lay] = per.get(lay, 0) + 1
        out.append(p[3:])
        if len(out) >= limit:
            break
    return out


def shards(tier, preemptions):
    cfgs = [
        dict(kind="reduce", func="nansum", method="map-reduce", engine="numpy", dtype="float64", labels=[0, 5, graphcfg.NAN, 1], chunks=[2, 2],
             batch_blocks=2, expected=[0, 1, 2]),
        dict(kind="reduce", func="nanmax", method="cohorts", engine="flox", dtype="float64", labels=[0, 1, 0, 0, 2, graphcfg.NAN], chunks=[2, 2, 2],
             batch_blocks=1),
        dict(kind="reduce", func="argmax", method="map-reduce", engine="numpy", dtype="float64", labels=[0, 1, graphcfg.NAN, 0], chunks=[2, 2],
             batch_blocks=2),
        dict(kind="reduce", func="var", method="map-reduce", engine="numpy", dtype="float64", labels=[0, 1, graphcfg.NAN, 0], chunks=[2, 2],
             batch_blocks=2, labels_dask=True, expected=[0, 1]),
        dict(kind="scan", func="nancumsum", labels=[0, 1, 0, 1, 0, 1], chunks=[2, 1, 1, 2], dtype="float64", batch_blocks=1),
        dict(kind="scan", func="ffill", labels=[0, 1, graphcfg.NAN, 1, 0, 1], chunks=[2, 2, 2], dtype="float64", batch_blocks=2),
    ]
    if tier == "thorough":
        cfgs += [
            dict(kind="reduce", func="nanfirst", method="cohorts", engine="numpy", dtype="float64", labels=[0, 1, 1, 0, 2, graphcfg.NAN], chunks=[2, 2, 2],
                 batch_blocks=2),
            dict(kind="reduce", func="nanlast", method="map-reduce", engine="numpy", dtype="int64", labels=[0, 1, graphcfg.NAN, 0], chunks=[2, 2],
                 batch_blocks=2),
            dict(kind="scan", func="bfill", labels=[0, 1, graphcfg.NAN, 1, 0, 1], chunks=[2, 2, 2], dtype="float64", batch_blocks=2),
        ]
    out = []
    for c in cfgs:
        npairs = 4 if tier == "quick" else 8
        for pi in range(npairs):
            out.append(dict(cfg=c, pair=pi, bound=preemptions))
    return out


def _prepare(cfg, pair_index):
    import cloudpickle

    colls, user, eager = graphcfg.build(cfg)
    g = graphx.TaskGraph(colls)
    store = {}
    for k in g.topo():
        store[k] = g.run_task(k, store)
    weight = {}
    for k in g.topo():
        r = Runner(lambda k=k: g.run_task(k, store), "line")
        r.start()
        r.go(None)
        r.join(timeout=10)
        weight[k] = r.steps
    pairs = find_pairs(g, 16, weight)
    if pair_index >= len(pairs):
        return None
    t1, t2, common = pairs[pair_index]
    keys = sorted(set(g.alldeps[t1]) | set(g.alldeps[t2]), key=repr)
    blob = cloudpickle.dumps({k: (g.data[k] if k in g.data else store[k]) for k in keys})
    tasks = (g.dsk[t1], g.dsk[t2])

    def make_tasks():
        vals = cloudpickle.loads(blob)  # fresh inputs for every execution, sharing between the two tasks preserved
        return (lambda: tasks[0](vals), lambda: tasks[1](vals)), [vals[c] for c in common]

    return make_tasks, (t1, t2, common)


def run(res, shard):
    cfg, bound = shard["cfg"], shard["bound"]
    prep = _prepare(cfg, shard["pair"])
    if prep is None:
        return
    make_tasks, (t1, t2, common) = prep
    tags = dict(leg2="threads", func=cfg["func"], method=str(cfg.get("method")))
    case0 = dict(cfg=cfg, pair=shard["pair"], tasks=[str(t1), str(t2)], shared=[str(c) for c in common])
    # sequential reference: each task alone on fresh inputs (granularity irrelevant)
    ref = [execute(make_tasks, (0,), "line"), execute(make_tasks, (1,), "line")]
    again = execute(make_tasks, (0,), "line")
    res.transitions += 3
    if again["outputs"] != ref[0]["outputs"] or again["steps"] != ref[0]["steps"]:
        res.violate("threads-nondeterministic", case0, dict(first=ref[0], second=again), "replaying a schedule reproduces it",
                    tags=dict(tags, kind="nondeterminism"), size=5)
        return
    want_out, want_shared = ref[0]["outputs"], ref[0]["shared"]
    if ref[1]["outputs"] != want_out or ref[1]["shared"] != want_shared:
        res.violate("threads-order", case0, dict(order_21=ref[1]["outputs"]), dict(order_12=want_out), tags=dict(tags, kind="serial-order"), size=5)
        return
    n = ref[0]["steps"]
    schedules = []
    for a in (0, 1):
        for s1 in range(1, n[a]):
            schedules.append((a, s1))
    gran2 = None
    if bound >= 2:
        # bound 2 at call granularity (every function entry in flox is a switch point)
        gran2 = "call"
        nc = execute(make_tasks, (0,), "call")["steps"]
        for a in (0, 1):
            for s1 in range(1, nc[a]):
                for s2 in range(1, nc[1 - a]):
                    schedules.append((a, s1, s2))
    outcomes = set()
    for sch in schedules:
        gran = "line" if len(sch) == 2 else gran2
        ob = execute(make_tasks, sch, gran)
        res.transitions += 1
        res.evaluations += 1
        res.states += 1
        res.compared += 1
        outcomes.add((ob["outputs"], ob["shared"]))
        if ob["outputs"] != want_out or ob["shared"] != want_shared:
            ob2 = execute(make_tasks, sch, gran)
            if (ob2["outputs"], ob2["shared"], ob2["steps"]) != (ob["outputs"], ob["shared"], ob["steps"]):
                res.violate("threads-nondeterministic", dict(case0, schedule=list(sch)), dict(first=ob, second=ob2),
                            "replaying a schedule reproduces it", tags=dict(tags, kind="nondeterminism"), size=10)
                return
            what = "shared input modified" if ob["shared"] != want_shared else "task output differs from its sequential output"
            res.violate("threads-interleaving", dict(case0, schedule=list(sch), granularity=gran, switch_trace=ob["trace"]),
                        dict(what=what, outputs=ob["outputs"], shared=ob["shared"]), dict(outputs=want_out, shared=want_shared),
                        tags=dict(tags, kind="interleaving", preemptions=len(sch) - 1), size=10 + len(sch))
            return
    res.nontrivial += len(schedules)
    res.outcomes["ok"] += 1
    res.extra["interleaving_pairs"] += 1
    res.extra["interleaving_schedules"] += len(schedules)
    res.classes[f"distinct_outcomes={len(outcomes)}"] += 1
    res.sample(dict(leg="threads", func=cfg["func"], tasks=[str(t1)[:60], str(t2)[:60]], shared=[str(c)[:60] for c in common],
                    line_steps=list(n), schedules=len(schedules), preemption_bound=bound))


def replay(res, case):
    from .runner import unjson_float

    cfg = dict(case["cfg"], labels=unjson_float(case["cfg"]["labels"]))
    prep = _prepare(cfg, case["pair"])
    if prep is None:
        return
    make_tasks, (t1, t2, common) = prep
    ref = execute(make_tasks, (0,), "line")
    sch = tuple(case.get("schedule", (0,)))
    ob = execute(make_tasks, sch, case.get("granularity", "line"))
    if ob["outputs"] != ref["outputs"] or ob["shared"] != ref["shared"]:
        res.violate("threads-interleaving", case, dict(outputs=ob["outputs"], shared=ob["shared"]), dict(outputs=ref["outputs"], shared=ref["shared"]),
                    tags=dict(kind="interleaving"), size=10)
