"""./check <ID> --tier quick|thorough    |    ./check --replay <path>"""

from __future__ import annotations

import argparse
import os
import sys


def main(argv=None):
    ap = argparse.ArgumentParser()
    ap.add_argument("prop", nargs="?")
    ap.add_argument("--tier", default=os.environ.get("VERIF_TIER", "quick"), choices=["quick", "thorough"])
    ap.add_argument("--replay")
    ap.add_argument("--nproc", type=int, default=None)
    args = ap.parse_args(argv)
    from . import runner

    if args.replay:
        return runner.run_replay(args.replay)
    if not args.prop:
        ap.error("property id required")
    seed = int(os.environ.get("VERIF_SEED", "0") or 0)
    pid = args.prop.upper()
    return runner.run_check(f"checks.{pid.lower()}", args.tier, seed, args.nproc)


if __name__ == "__main__":
    sys.exit(main())
