#!/bin/bash
# Offline setup: nothing is fetched or installed; verify interpreter + imports and self-test the reference model.
set -e
cd "$(dirname "${BASH_SOURCE[0]}")"
chmod +x check tools/*.py 2>/dev/null || true
mkdir -p evidence replays
PYTHONPATH=/repo:$PWD PYTHONDONTWRITEBYTECODE=1 /venv/bin/python - <<'PY'
import sys, os
import numpy, pandas, dask, flox, xarray, cloudpickle
assert os.path.realpath(flox.__file__).startswith("/repo/flox"), flox.__file__
from mc import refmodel, runner, evidence, space, e1
assert refmodel.selftest()
print("setup ok: python", sys.version.split()[0], "numpy", numpy.__version__, "dask", dask.__version__, "flox from", flox.__file__)
PY
