"""C17  rechunking helpers keep the data and establish their alignment postconditions.

E1: rechunk_for_blockwise on every sequential label array (composition of n into runs) x every initial chunking
(composition of n), array and xarray flavours, as last or first axis of a 2-D array, plus periodic / irregular
labels (generic postconditions only); rechunk_for_cohorts on every label tuple over {1,2,3}^n x every chunking x
forced-label sets x chunksize hints x ignore_old_chunks; method='blockwise' on the rechunked layout == eager."""

from __future__ import annotations

import itertools

import numpy as np

from mc import e1, space
from mc.runner import Result

PROPERTY = "C17"
LEVEL = "model_checking"
TECHNIQUE = "bounded exhaustive enumeration of run/chunk compositions and helper options with postcondition invariants"
ENGINE = "E1"
RULE = (
    "state = (helper, flavour array|xarray, axis position, label array, initial chunking[, forced labels, chunksize, "
    "ignore_old_chunks]); all sequential label arrays = compositions of n into runs x all compositions of n as chunks; all "
    "label tuples over {1,2,3}^n for the cohorts helper; transition = one real helper call (+compute of the values for small n, "
    "+ groupby_reduce(method='blockwise') on the result). Oracle: same shape/dtype/values; chunks positive and summing to n; other "
    "axes untouched; blockwise+sequential: no run straddles a boundary; cohorts: every occurrence of a forced label starts a chunk "
    "and old boundaries are kept unless ignored; a second call with different labels of equal length gives its own answer. "
    "Non-trivial = an initial boundary falls strictly inside a run / a forced label is not at an old boundary."
)
ASSUMPTIONS = [
    "small scope: n<=8 (quick) / 10 (thorough) for blockwise, n<=5 / 6 for cohorts",
    "for non-sequential labels only the generic postconditions (data, chunk sums, other axes) are asserted",
]


def bounds(tier, seed):
    return dict(bw_n=8 if tier == "quick" else 10, co_n=5 if tier == "quick" else 6, values_n=5, reduce_n=6)


def shards(tier, seed):
    b = bounds(tier, seed)
    out = []
    for n in range(1, b["bw_n"] + 1):
        nparts = {6: 2, 7: 4, 8: 12, 9: 32, 10: 96}.get(n, 1)
        for part in range(nparts):
            out.append(dict(leg="blockwise", n=n, part=part, nparts=nparts, values_n=b["values_n"], reduce_n=b["reduce_n"]))
    out.append(dict(leg="blockwise-irregular", n=6))
    for n in range(1, b["co_n"] + 1):
        nparts = {4: 3, 5: 10, 6: 30}.get(n, 1)
        for part in range(nparts):
            out.append(dict(leg="cohorts", n=n, part=part, nparts=nparts, values_n=4))
    out.append(dict(leg="history", n=6))
    out.sort(key=lambda s: -s["n"])
    return out


def runs_to_labels(runs):
    return np.repeat(np.arange(len(runs)), runs)


def generic_post(res, leg, case, tags, before, after, axis, n, check_values):
    """shape / dtype / chunk sums / other axes / values.  Returns True if fine."""
    probs = []
    if after.shape != before.shape:
        probs.append(f"shape {after.shape} != {before.shape}")
    if after.dtype != before.dtype:
        probs.append(f"dtype {after.dtype} != {before.dtype}")
    ch = after.chunks[axis]
    if any(c <= 0 for c in ch) or sum(ch) != n:
        probs.append(f"chunks {ch} along the axis are not positive / do not sum to {n}")
    for ax in range(before.ndim):
        if ax != axis % before.ndim and after.chunks[ax] != before.chunks[ax]:
            probs.append(f"axis {ax} was rechunked: {before.chunks[ax]} -> {after.chunks[ax]}")
    if check_values and not probs:
        a, b = np.asarray(after.compute(scheduler="sync")), np.asarray(before.compute(scheduler="sync"))
        if not np.array_equal(a, b, equal_nan=True):
            probs.append("values changed")
    if probs:
        res.outcomes["mismatch"] += 1
        res.violate(leg + "-generic", case, dict(chunks=[list(c) for c in after.chunks], problems=probs), "data and other axes untouched, chunks sum to n",
                    tags=dict(tags, kind="generic"), size=n * 10)
        return False
    return True


def make_array(n, chunks, axis_last=True):
    import dask.array as da

    vals = np.arange(2 * n, dtype=float).reshape(2, n) * 1.5 - 3
    if axis_last:
        return da.from_array(vals, chunks=((1, 1), chunks)), -1
    return da.from_array(vals.T.copy(), chunks=(chunks, (1, 1))), 0


def make_dataset(n, chunks):
    """Variables that carry x at different axis positions, one in memory, one without x."""
    import dask.array as da
    import xarray as xr

    a, _ = make_array(n, chunks, True)   # (y, x)
    b, _ = make_array(n, chunks, False)  # (x, y)
    sq = da.from_array(np.arange(n * n, dtype=float).reshape(n, n), chunks=((n,), chunks))  # (z, x), square
    ds = xr.Dataset(dict(a=(("y", "x"), a), b=(("x", "y"), b), sq=(("z", "x"), sq), c=(("x",), np.arange(n, dtype=float)),
                         d=(("y",), da.from_array(np.array([1.0, 2.0]), chunks=1))))
    return ds, [("a", a, -1), ("b", b, 0), ("sq", sq, -1)]


def dataset_untouched(before, after):
    probs = []
    if type(after["c"].data) is not type(before["c"].data) or not np.array_equal(after["c"].values, before["c"].values):
        probs.append("in-memory variable c changed")
    if after["d"].chunks != before["d"].chunks:
        probs.append(f"variable d (no x dimension) was rechunked: {before['d'].chunks} -> {after['d'].chunks}")
    return probs


def check_blockwise(res, labels, chunks, flavour, axis_last, sequential, values, reduce_):
    import flox

    n = len(labels)
    arr, axis = make_array(n, chunks, axis_last)
    case = dict(leg="blockwise", labels=labels.tolist(), chunks=list(chunks), flavour=flavour, axis_last=axis_last)
    tags = dict(leg2="blockwise", flavour=flavour, axis_last=axis_last, sequential=sequential)
    res.evaluations += 1
    res.states += 1
    res.transitions += 1
    try:
        if flavour == "array":
            out = flox.rechunk_for_blockwise(arr, axis, labels)
        else:
            import xarray as xr
            from flox.xarray import rechunk_for_blockwise as xrb

            dims = ("y", "x") if axis_last else ("x", "y")
            if flavour == "dataset":
                obj, pairs_in = make_dataset(n, chunks)
                outds = xrb(obj, "x", xr.DataArray(labels, dims="x", name="lab"))
                pairs = [(b, outds[k].data, ax) for k, b, ax in pairs_in]
                extra = dataset_untouched(obj, outds)
                arr, out, axis = pairs[0]
            else:
                obj = xr.DataArray(arr, dims=dims, name="v")
                out = xrb(obj, "x", xr.DataArray(labels, dims="x", name="lab")).data
    except Exception as e:
        res.outcomes[f"error:{type(e).__name__}"] += 1
        res.violate("blockwise-error", case, dict(exc=type(e).__name__, msg=str(e)[:200]), "a rechunked array", tags=dict(tags, kind="error"), size=n * 10)
        return
    res.compared += 1
    if flavour == "dataset":
        if extra:
            res.outcomes["mismatch"] += 1
            res.violate("blockwise-generic", case, dict(problems=extra), "variables without the dimension (or in memory) are left alone", tags=dict(tags, kind="generic"), size=n * 10)
            return
        # every variable carrying the dimension, whatever its position, satisfies the postconditions
        for b, o, ax in pairs[1:]:
            if not generic_post(res, "blockwise", case, tags, b, o, ax, n, values):
                return
            if sequential:
                bnds = set(np.cumsum(o.chunks[ax])[:-1].tolist())
                inside = [x for x in bnds if labels[x - 1] == labels[x]]
                if inside:
                    res.outcomes["mismatch"] += 1
                    res.violate("blockwise-straddle", case, dict(new_chunks=list(o.chunks[ax]), boundaries_inside_a_run=inside, variable_axis=ax),
                                "no group straddles a chunk boundary", tags=dict(tags, kind="straddle"), size=n * 10)
                    return
    if not generic_post(res, "blockwise", case, tags, arr, out, axis, n, values):
        return
    ch = out.chunks[axis]
    if sequential:
        bnds = set(np.cumsum(ch)[:-1].tolist())
        inside = [b for b in bnds if labels[b - 1] == labels[b]]
        if inside:
            res.outcomes["mismatch"] += 1
            res.violate("blockwise-straddle", case, dict(new_chunks=list(ch), boundaries_inside_a_run=inside), "no group straddles a chunk boundary",
                        tags=dict(tags, kind="straddle"), size=n * 10)
            return
    if reduce_ and axis_last and flavour == "array":
        # method='blockwise' on 1-D labels relies on this helper to be exact
        import dask.array as da

        v = np.arange(n, dtype=float) * 2 - 3
        darr = da.from_array(v, chunks=(chunks,))
        o = e1.call_reduce(darr, labels, func="sum", method="blockwise")
        eg = e1.call_reduce(v, labels, func="sum")
        res.transitions += 1
        if sequential and (o.kind != "ok" or not np.array_equal(o.result, eg.result) or list(o.groups[0]) != list(eg.groups[0])):
            res.outcomes["mismatch"] += 1
            res.violate("blockwise-reduce", case, o.brief(), eg.brief(), tags=dict(tags, kind="reduce"), size=n * 10)
            return
    res.outcomes["ok"] += 1


def check_cohorts(res, labels, chunks, forced, chunksize, ignore, flavour, values):
    import flox

    n = len(labels)
    arr, axis = make_array(n, chunks, True)
    case = dict(leg="cohorts", labels=labels.tolist(), chunks=list(chunks), forced=list(forced), chunksize=chunksize, ignore_old_chunks=ignore, flavour=flavour)
    tags = dict(leg2="cohorts", flavour=flavour, ignore=ignore, chunksize=str(chunksize))
    res.evaluations += 1
    res.states += 1
    res.transitions += 1
    present = any(lab in forced for lab in labels.tolist())
    try:
        if flavour == "array":
            out = flox.rechunk_for_cohorts(arr, axis, labels, force_new_chunk_at=list(forced), chunksize=chunksize, ignore_old_chunks=ignore)
        else:
            import xarray as xr
            from flox.xarray import rechunk_for_cohorts as xrc

            if flavour == "dataset":
                obj, pairs_in = make_dataset(n, chunks)
                outds = xrc(obj, "x", xr.DataArray(labels, dims="x", name="lab"), force_new_chunk_at=list(forced), chunksize=chunksize,
                            ignore_old_chunks=ignore)
                pairs = [(b, outds[k].data, ax) for k, b, ax in pairs_in]
                arr, out, axis = pairs[1]  # the variable with x first
                if dataset_untouched(obj, outds) or any(o.chunks[ax] != pairs[0][1].chunks[-1] for _, o, ax in pairs):
                    res.outcomes["mismatch"] += 1
                    res.violate("cohorts-generic", case, dict(chunks={k: [list(c) for c in outds[k].chunks] for k in ("a", "b", "sq")}, problems=dataset_untouched(obj, outds)),
                                "every variable carrying x gets the same new chunks along x; the others are left alone", tags=dict(tags, kind="generic"), size=n * 10)
                    return
            else:
                obj = xr.DataArray(arr, dims=("y", "x"), name="v")
                out = xrc(obj, "x", xr.DataArray(labels, dims="x", name="lab"), force_new_chunk_at=list(forced), chunksize=chunksize,
                          ignore_old_chunks=ignore).data
    except ValueError as e:
        res.outcomes["refused:ValueError"] += 1
        if present:
            res.violate("cohorts-refused", case, dict(exc="ValueError", msg=str(e)[:200]), "a rechunked array (a forced label is present)",
                        tags=dict(tags, kind="refused"), size=n * 10)
        return
    except Exception as e:
        res.outcomes[f"error:{type(e).__name__}"] += 1
        res.violate("cohorts-error", case, dict(exc=type(e).__name__, msg=str(e)[:200]), "a rechunked array", tags=dict(tags, kind="error"), size=n * 10)
        return
    res.compared += 1
    if not generic_post(res, "cohorts", case, tags, arr, out, axis, n, values):
        return
    ch = out.chunks[axis]
    starts = set([0] + np.cumsum(ch)[:-1].tolist())
    probs = []
    missing = [i for i, lab in enumerate(labels.tolist()) if lab in forced and i not in starts]
    if missing:
        probs.append(f"forced label at positions {missing} does not start a chunk")
    if not ignore:
        old = set([0] + np.cumsum(chunks)[:-1].tolist())
        lost = sorted(old - starts)
        if lost:
            probs.append(f"old boundaries {lost} were dropped")
    if probs:
        res.outcomes["mismatch"] += 1
        res.violate("cohorts-alignment", case, dict(new_chunks=list(ch), problems=probs), "forced labels start chunks; old boundaries kept",
                    tags=dict(tags, kind="alignment"), size=n * 10)
        return
    res.outcomes["ok"] += 1


def run_shard(shard):
    e1.reset_flox_caches()
    res = Result()
    leg, n = shard["leg"], shard["n"]
    if leg == "blockwise":
        pairs = [(runs, ch) for runs in space.compositions(n) for ch in space.compositions(n)]
        pairs = [p for i, p in enumerate(pairs) if i % shard["nparts"] == shard["part"]]
        for runs, ch in pairs:
            labels = runs_to_labels(runs)
            inside = any(labels[b - 1] == labels[b] for b in np.cumsum(ch)[:-1])
            for flavour in ("array", "xarray"):
                for axis_last in (True, False):
                    if flavour == "xarray" and n > 6:
                        continue
                    check_blockwise(res, labels, ch, flavour, axis_last, True, n <= shard["values_n"], n <= shard["reduce_n"])
                    res.nontrivial += 1 if inside else 0
            if n <= 5:
                # a Dataset whose variables carry the dimension at different axis positions
                check_blockwise(res, labels, ch, "dataset", True, True, n <= 3, False)
                res.nontrivial += 1 if inside else 0
        res.sample(dict(leg=leg, n=n, runs=list(pairs[len(pairs) // 2][0]), chunks=list(pairs[len(pairs) // 2][1])))
    elif leg == "blockwise-irregular":
        for m in range(2, n + 1):
            for lt in itertools.product((0, 1, 2), repeat=m):
                for ch in space.compositions(m):
                    check_blockwise(res, np.array(lt), ch, "array", True, False, m <= 4, False)
        res.sample(dict(leg=leg, labels="all tuples over {0,1,2}^m, m<=6 (periodic and irregular included)"))
    elif leg == "cohorts":
        pairs = [(lt, ch) for lt in itertools.product((1, 2, 3), repeat=n) for ch in space.compositions(n)]
        pairs = [p for i, p in enumerate(pairs) if i % shard["nparts"] == shard["part"]]
        for lt, ch in pairs:
            labels = np.array(lt)
            for forced in ((1,), (1, 3), (2,)):
                for chunksize in (None, 1, 2, 3):
                    for ignore in (False, True):
                        check_cohorts(res, labels, ch, forced, chunksize, ignore, "array", n <= shard["values_n"])
                        res.nontrivial += 1
                if n <= 3:
                    check_cohorts(res, labels, ch, forced, None, False, "xarray", True)
                if n <= 4:
                    check_cohorts(res, labels, ch, forced, None, False, "dataset", n <= 3)
        res.sample(dict(leg=leg, n=n, labels=list(pairs[len(pairs) // 2][0]), chunks=list(pairs[len(pairs) // 2][1]), forced=[[1], [1, 3], [2]]))
    elif leg == "history":
        # a second call with DIFFERENT labels of equal length and equal chunks (memoised helper) gives its own answer
        import flox

        cases = [(runs, ch) for runs in space.compositions(n) for ch in space.compositions(n)]
        fresh = {}
        for runs, ch in cases:
            e1.reset_flox_caches()
            arr, axis = make_array(n, ch, True)
            fresh[(runs, ch)] = flox.rechunk_for_blockwise(arr, axis, runs_to_labels(runs)).chunks[-1]
        e1.reset_flox_caches()
        prev = None
        for runs, ch in cases:  # warm cache: every call follows many other calls
            arr, axis = make_array(n, ch, True)
            got = flox.rechunk_for_blockwise(arr, axis, runs_to_labels(runs)).chunks[-1]
            res.evaluations += 1
            res.states += 1
            res.transitions += 2
            res.compared += 1
            res.nontrivial += 1
            if got != fresh[(runs, ch)]:
                res.outcomes["mismatch"] += 1
                res.violate("history", dict(leg="history", runs=list(runs), chunks=list(ch), previous_call=prev), dict(chunks=list(got)),
                            dict(fresh_process_state=list(fresh[(runs, ch)])), tags=dict(leg2="history", kind="history"), size=n * 10)
                break
            res.outcomes["ok"] += 1
            prev = dict(runs=list(runs), chunks=list(ch))
        res.sample(dict(leg=leg, n=n, calls=len(cases)))
    return res


def replay(payload):
    res = Result()
    c = payload["case"]
    if c["leg"] == "blockwise":
        check_blockwise(res, np.array(c["labels"]), tuple(c["chunks"]), c["flavour"], c["axis_last"], True, True, True)
    elif c["leg"] == "cohorts":
        check_cohorts(res, np.array(c["labels"]), tuple(c["chunks"]), tuple(c["forced"]), c["chunksize"], c["ignore_old_chunks"], c["flavour"], True)
    else:
        return run_shard(dict(leg="history", n=6))
    return res
