"""C02  chunked groupby_reduce == eager groupby_reduce, for every strategy / reindex mode / chunking.

E1: every label tuple over {0,1,2,missing}^n x every composition of n as the chunking of the reduced
axis x batch axis in 1 or 2 blocks x labels as numpy or dask x method x reindex x engine x
expected_groups kind x reduction; all value tuples ride along the batch axis."""

from __future__ import annotations

import itertools

import numpy as np

from mc import e1, refmodel as rm, space
from mc.runner import Result

PROPERTY = "C02"
LEVEL = "model_checking"
TECHNIQUE = "bounded exhaustive enumeration of labels x chunkings x plans (explicit-state, real graph build+compute per state) against eager result and NumPy model"
ENGINE = "E1"
RULE = (
    "state = (reduction, dtype, engine, label tuple over {0,1,2,NaN}^n, chunking = composition of n, batch blocks, "
    "labels numpy|dask, method, reindex, expected_groups kind, value tuple); every state of the bound is built as a "
    "real dask graph by groupby_reduce and computed (transition = one graph build + compute; all value tuples over "
    "the alphabet are the rows of the batch axis). Oracle = eager result of the same call AND the NumPy reference "
    "model. Non-trivial = >=2 chunks and (a group absent from some chunk, or an all-missing chunk, or a group "
    "spanning >=2 chunks)."
)
ASSUMPTIONS = [
    "small scope: <=4 (quick) / 5 (thorough) elements along the reduced axis, <=3 groups, value alphabet {1,-2,0,3.5,NaN}",
    "eager results are tied to NumPy by C01; here eager (engine='numpy') and the reference model are both oracles",
    "method='blockwise' is asserted only when every group lies in one block after flox's automatic rechunk (flox.rechunk_for_blockwise applied to the codes, as groupby_reduce does)",
    "a refusal (ValueError/NotImplementedError) of a configuration is recorded, not a violation (C19 owns refusals); any other exception is",
    "synchronous scheduler; schedule independence is C03's",
]

FILL = -77

QUICK_FUNCS = [
    ("sum", "float64"), ("nanprod", "float64"), ("count", "float64"), ("nanmean", "float64"),
    ("var", "float64"), ("max", "float64"), ("nanmax", "float64"),
    ("nanfirst", "float64"), ("nanlast", "int64"), ("argmax", "float64"), ("nanargmin", "float64"),
    ("any", "bool"), ("first", "float64"),
]  # fmt: skip
THOROUGH_FUNCS = QUICK_FUNCS + [
    ("nanmin", "float64"), ("all", "bool"), ("nansum", "int64"), ("median", "float64"),
    ("nansum", "float64"), ("prod", "float64"), ("mean", "float64"), ("nanvar", "float64"),
    ("std", "float64"), ("nanstd", "float64"), ("min", "float64"), ("argmin", "float64"),
    ("nanargmax", "float64"), ("last", "float64"), ("nanfirst", "int64"), ("max", "int64"),
    ("nanlast", "float64"), ("sum", "bool"), ("nanmedian", "float64"), ("argmax", "int64"),
]  # fmt: skip

LABELS = (0.0, 1.0, 2.0, float("nan"))


def bounds(tier, seed):
    if tier == "quick":
        return dict(n_complete=3, n_stratum=4, strata=64, stratum=seed % 64, funcs=len(QUICK_FUNCS))
    # thorough: every option combination and all reductions on n<=3, one quarter of n=4 (reduced option set, numpy engine)
    return dict(n_complete=3, n_stratum=4, strata=4, stratum=seed % 4, funcs=len(THOROUGH_FUNCS))


def shards(tier, seed):
    b = bounds(tier, seed)
    funcs = QUICK_FUNCS if tier == "quick" else THOROUGH_FUNCS
    out = []
    for func, dtype in funcs:
        for egroup in ("numpy", "flox", "numbagg"):
            if tier == "quick" and egroup != "numpy" and func not in ("sum", "nanmax", "var", "nanfirst", "nanmean", "any"):
                continue  # the other engines only differ in the per-block kernels and the grouped combine
            for n in range(1, b["n_complete"] + 1):
                nparts = 4 if n == b["n_complete"] else 1
                for part in range(nparts):
                    out.append(dict(func=func, dtype=dtype, engine=egroup, n=n, part=part, nparts=nparts, full=True, tier=tier))
            # one complete stratum of the next length (reduced option set, numpy engine)
            if egroup != "numpy":
                continue
            sub = 1 if tier == "quick" else 8
            for k in range(sub):
                out.append(dict(func=func, dtype=dtype, engine=egroup, n=b["n_stratum"], part=b["stratum"] * sub + k,
                                nparts=b["strata"] * sub, full=False, tier="quick"))
    # deep two-label leg: many small blocks, so that cohorts span >= 4 blocks (merging, block subsetting, deeper trees)
    deep_ns = (5, 6, 7) if tier == "quick" else (5, 6, 7, 8)
    for func, dtype in (("sum", "float64"), ("nanmax", "float64"), ("nanargmax", "float64")):
        for n in deep_ns:
            if tier == "quick" and func != "sum" and n == 7:
                continue
            nparts = {5: 2, 6: 6, 7: 16, 8: 48}[n]
            for part in range(nparts):
                out.append(dict(func=func, dtype=dtype, engine="numpy", n=n, part=part, nparts=nparts, deep=True, tier=tier))
    # dask labels cut into chunks differently from the array (same number of blocks with other boundaries, and other numbers)
    for func in ("sum", "nanmax", "nanargmax"):
        for n in (3, 4):
            nparts = 1 if n == 3 else 6
            for part in range(nparts):
                out.append(dict(func=func, dtype="float64", engine="numpy", n=n, labelchunks=True, part=part, nparts=nparts, tier=tier))
    # n-D labels leg: 2-D labels (all axes reduced), integer labels with a real label -1, fill_value without expected_groups
    for func in ND_FUNCS:
        for labkind in ("int-1", "float-nan"):
            for shp in ((3,), (2, 2)) if tier == "quick" else ((3,), (2, 2), (2, 3)):
                nparts = 1 if int(np.prod(shp)) <= 4 else 6
                for part in range(nparts):
                    out.append(dict(func=func, dtype="float64", engine="numpy", n=int(np.prod(shp)), nd=True, shape=list(shp),
                                    labkind=labkind, part=part, nparts=nparts, tier=tier))
    out.sort(key=lambda s: (0 if s["engine"] == "numbagg" else 1, -s["n"]))
    return out


ND_FUNCS = ["sum", "nanmax", "nanmin", "count", "nanmean"]


def run_labelchunks(res, shard):
    """The label array is a dask array whose chunk boundaries differ from the value array's."""
    func, dtype, n = shard["func"], shard["dtype"], shard["n"]
    base = np.array([1.0, -2.0, 3.5, float("nan"), -2.0, 7.0])[:n]
    V = np.array([np.roll(base, r) for r in range(3)] + [2.0 ** np.arange(n)], dtype=dtype)
    comps = [c for c in space.compositions(n) if len(c) >= 2]
    pairs = [(a, b) for a in comps for b in comps if a != b and (n <= 3 or shard.get("tier") != "quick" or len(a) == len(b))]
    work = [(lt, a, b) for lt in itertools.product(LABELS, repeat=n) if any(x == x for x in lt) for a, b in pairs]
    work = [w for i, w in enumerate(work) if i % shard["nparts"] == shard["part"]]
    for lab_tuple, chunks, lch in work:
        for method in (None, "map-reduce"):
            for exkind in ("absent", "superset"):
                check_point(res, func, dtype, "numpy", lab_tuple, chunks, 1, True, method, None, exkind, V, label_chunks=lch)
        res.nontrivial += 4 * V.shape[0]
        res.classes["label-chunks-differ"] += 1
    if work:
        res.sample(dict(leg="labelchunks", func=func, n=n, labels=list(work[len(work) // 2][0]), array_chunks=list(work[len(work) // 2][1]),
                        label_chunks=list(work[len(work) // 2][2])))
    return res


def run_nd(res, shard):
    """Labels of 1 or 2 dimensions, all of them reduced; integer labels {-1,0,1} (-1 is a label like any other) or floats
    {0,1,NaN}; every chunk grid; labels numpy or dask; no expected_groups, with and without a fill_value (which then
    applies to groups without any valid member); oracle: the same call on the in-memory array, and the NumPy model."""
    import dask.array as da

    func, shp, labkind = shard["func"], tuple(shard["shape"]), shard["labkind"]
    size = int(np.prod(shp))
    alphabet = (-1, 0, 1) if labkind == "int-1" else (0.0, 1.0, float("nan"))
    V = space.value_matrix((1.0, -2.0, float("nan")), size, "float64")
    B = V.shape[0]
    Vn = V.reshape((B,) + shp)
    grids = list(itertools.product(*[space.compositions(s) for s in shp]))
    labs = [lt for lt in itertools.product(alphabet, repeat=size) if any(x == x for x in lt)]
    labs = [lt for i, lt in enumerate(labs) if i % shard["nparts"] == shard["part"]]
    for lt in labs:
        labels = np.array(lt, dtype=np.int64 if labkind == "int-1" else float).reshape(shp)
        order = sorted(set(x for x in lt if x == x))
        for fill in (None, FILL):
            kw = dict(func=func, engine="numpy")
            if fill is not None:
                kw["fill_value"] = fill
            eager = e1.call_reduce(Vn, labels, **kw)
            exp, scope, present = e1.expected_table(func, V, list(lt), order)
            if fill is not None:
                cnt, _, _ = e1.expected_table("count", V, list(lt), order)
                scope = scope & (cnt > 0)
            for grid in grids:
                for labels_dask in (False, True):
                    for method in (None, "map-reduce", "cohorts"):
                        if labels_dask and method == "cohorts":
                            continue
                        arr = da.from_array(Vn, chunks=((B,),) + tuple(grid))
                        by = da.from_array(labels, chunks=tuple(grid)) if labels_dask else labels
                        out = e1.call_reduce(arr, by, method=method, **kw)
                        res.evaluations += B
                        res.states += B
                        res.transitions += 1
                        res.nontrivial += B if (len(order) > 1 or len(order) < size) else 0
                        case = dict(leg="nd", func=func, label_shape=list(shp), labels=list(lt), grid=[list(g) for g in grid], labels_dask=labels_dask,
                                    method=method, fill=fill)
                        tags = dict(leg2="nd", func=func, method=str(method), labels_dask=labels_dask, labkind=labkind, fill=str(fill), lab_ndim=len(shp))
                        sz = size * 10 + sum(len(g) for g in grid)
                        if out.kind == "refused" and out.origin == "flox":
                            res.outcomes[f"refused:{out.exc}"] += 1
                            continue
                        if out.kind in ("error", "refused"):
                            res.outcomes[f"error:{out.exc}"] += 1
                            res.violate("chunked-error", case, out.brief(), "a computed result or a clean refusal",
                                        tags=dict(tags, kind="error", exc=out.exc, where=out.where), size=sz)
                            continue
                        if eager.kind != "ok":
                            res.outcomes[f"eager-{eager.kind}(not asserted)"] += 1
                            continue
                        res.compared += B
                        if not rm.same_labels(out.groups[0], order) or not rm.same_labels(eager.groups[0], order):
                            res.outcomes["wrong-labels"] += 1
                            res.violate("chunked-labels", case, dict(groups=out.groups[0]), dict(groups=order), tags=dict(tags, kind="labels"), size=sz)
                            continue
                        bad = e1.compare(out.result, np.asarray(eager.result), np.ones_like(scope), rtol=1e-12)
                        which = "eager"
                        if bad is None:
                            bad = e1.compare(out.result, exp, scope, rtol=1e-12)
                            which = "numpy-model"
                        if bad is None:
                            res.outcomes["ok"] += 1
                            continue
                        res.outcomes["mismatch"] += 1
                        if bad[0] == "shape":
                            res.violate("chunked-shape", case, dict(shape=bad[1]), dict(shape=bad[2]), tags=dict(tags, kind="shape"), size=sz)
                            continue
                        ref = np.asarray(eager.result) if which == "eager" else exp
                        res.violate("chunked-value", dict(case, values=V[bad[-2]], group=order[bad[-1]], oracle=which),
                                    np.asarray(out.result)[bad], ref[bad], tags=dict(tags, kind="value", oracle=which), size=sz)
    res.sample(dict(leg="nd", func=func, label_shape=list(shp), label_alphabet=[str(a) for a in alphabet], grids=len(grids), rows=B))
    return res


def configs(engine, labels_dask, bblocks=1, tier="thorough"):
    """(method, reindex, expected_kind) combinations explored for one (labels, chunking)."""
    out = []
    quick = tier == "quick"
    if engine == "numpy":
        methods = (None, "map-reduce", "cohorts", "blockwise")
        reindexes = (None, True, False)
        expecteds = ("absent", "superset") if quick else ("absent", "exact", "superset")
    else:  # other engines: the per-block kernels and the grouped combine differ, the planner does not
        methods = (None, "map-reduce", "cohorts")
        reindexes = (None, False)
        expecteds = ("absent", "superset")
    for m, r, ex in itertools.product(methods, reindexes, expecteds):
        if labels_dask and m == "cohorts":
            continue  # documented: cohorts needs numpy labels (refusal checked by C19)
        if m in ("cohorts",) and r is True:
            continue
        if bblocks == 2 and (r is not None or ex == "exact"):
            continue
        if quick and bblocks == 2 and (m, ex) not in ((None, "superset"), ("map-reduce", "absent"), ("cohorts", "superset")):
            continue
        if quick and labels_dask:
            if engine != "numpy" and m != "map-reduce":
                continue
            if r is not None and not (m == "map-reduce" and ex == "superset"):
                continue
        out.append((m, r, ex))
    return out


def kw_for(func):
    if func in ("var", "nanvar", "std", "nanstd"):
        return dict(ddof=1)
    return {}


def fill_for(func):
    return False if func in ("any", "all") else FILL


def blockwise_ok(lab_tuple, chunks):
    """Precondition of method='blockwise' (see ASSUMPTIONS): after flox's own automatic rechunk."""
    codes = np.array([-1 if lab != lab else int(lab) for lab in lab_tuple])
    return e1.blockwise_layout_ok(codes, chunks)[0]


def layout_classes(lab_tuple, chunks):
    cls = []
    b = space.chunk_bounds(chunks)
    present = {lab for lab in lab_tuple if lab == lab}
    per_block = []
    for i in range(len(chunks)):
        labs = [lab for lab in lab_tuple[b[i]:b[i + 1]] if lab == lab]
        per_block.append(set(labs))
    if len(chunks) >= 2:
        if any(not s for s in per_block):
            cls.append("all-missing-block")
        if any(present - s for s in per_block if s):
            cls.append("group-absent-from-block")
        if any(sum(lab in s for s in per_block) >= 2 for lab in present):
            cls.append("group-spans-blocks")
    if any(c == 1 for c in chunks) and len(chunks) >= 2:
        cls.append("size1-block")
    if len(chunks) > 4:
        cls.append(">4-blocks")
    return cls


_EAGER_CACHE = {}


def eager_reference(func, dtype, lab_tuple, V, exkind):
    key = (func, dtype, lab_tuple, exkind, V.shape)
    if key in _EAGER_CACHE:
        return _EAGER_CACHE[key]
    labels = np.array(lab_tuple, dtype=float)
    kw = dict(func=func, engine="numpy")
    fk = kw_for(func)
    if fk:
        kw["finalize_kwargs"] = fk
    if exkind != "absent":
        kw["expected_groups"] = np.array([0.0, 1.0, 2.0] if exkind == "exact" else [0.0, 1.0, 2.0, 3.0])
        kw["fill_value"] = fill_for(func)
    out = e1.call_reduce(V, labels, **kw)
    if len(_EAGER_CACHE) > 4096:
        _EAGER_CACHE.clear()
    _EAGER_CACHE[key] = out
    return out


def check_point(res, func, dtype, engine, lab_tuple, chunks, bblocks, labels_dask, method, reindex, exkind, V, label_chunks=None, split_every=None):
    import dask
    import dask.array as da

    n = len(lab_tuple)
    labels = np.array(lab_tuple, dtype=float)
    fk = kw_for(func)
    kw = dict(func=func, engine=engine, method=method, reindex=reindex)
    if fk:
        kw["finalize_kwargs"] = fk
    if exkind != "absent":
        kw["expected_groups"] = np.array([0.0, 1.0, 2.0] if exkind == "exact" else [0.0, 1.0, 2.0, 3.0])
        kw["fill_value"] = fill_for(func)
    B = V.shape[0]
    bch = (B,) if bblocks == 1 else (B // 2, B - B // 2)
    arr = da.from_array(V, chunks=(bch, chunks))
    by = da.from_array(labels, chunks=(label_chunks or chunks,)) if labels_dask else labels
    with dask.config.set(**({"split_every": split_every} if split_every else {})):
        out = e1.call_reduce(arr, by, **kw)
    res.evaluations += B
    res.states += B
    res.transitions += 1
    case = dict(func=func, dtype=dtype, engine=engine, labels=list(lab_tuple), chunks=list(chunks), batch_blocks=bblocks,
                labels_dask=labels_dask, method=method, reindex=reindex, expected=exkind)
    if label_chunks:
        case["label_chunks"] = list(label_chunks)
    if split_every:
        case["split_every"] = split_every
    tags = dict(func=func, dtype=dtype, engine=engine, method=str(method), reindex=str(reindex), labels_dask=labels_dask,
                expected=exkind, nblocks=len(chunks))
    if method == "blockwise" and not blockwise_ok(lab_tuple, chunks):
        # outside the documented precondition of blockwise: whatever happens is not C02's business
        res.outcomes["blockwise-precondition-unmet(not asserted)"] += 1
        return
    if out.kind == "refused" and out.origin == "flox":
        res.outcomes[f"refused:{out.exc}"] += 1
        return
    if out.kind in ("error", "refused"):
        # an internal error - or a ValueError raised inside numpy / dask / pandas, which is not a refusal by flox
        res.outcomes[f"error:{out.exc}"] += 1
        res.violate("chunked-error", case, out.brief(), "a computed result or a clean refusal",
                    tags=dict(tags, kind="error", exc=out.exc, where=out.where, raised_in=out.origin), size=n * 10 + len(chunks))
        return
    eager = eager_reference(func, dtype, lab_tuple, V, exkind)
    if eager.kind != "ok":
        res.outcomes[f"eager-{eager.kind}(not asserted)"] += 1
        return
    res.compared += B
    # labels
    if not rm.same_labels(out.groups[0], list(np.asarray(eager.groups[0]).tolist())):
        res.outcomes["wrong-labels"] += 1
        res.violate("chunked-labels", case, dict(groups=out.groups[0]), dict(groups=eager.groups[0]),
                    tags=dict(tags, kind="labels"), size=n * 10 + len(chunks))
        return
    order = list(np.asarray(eager.groups[0]).tolist())
    exp, scope, present = e1.expected_table(func, V, list(lab_tuple), order, **fk)
    scope_eager = ~(present[None, :] & ~scope)  # everything except cells where NumPy itself is undefined
    if exkind != "absent":
        # a fill_value was requested: flox documents that it also applies to groups without any valid
        # (non-NaN) member, where NumPy has no such notion -> only eager==chunked is asserted there (C05)
        cnt, _, _ = e1.expected_table("count", V, list(lab_tuple), order)
        scope = scope & (cnt > 0)
    rtol = rm.rtol_for(dtype, func)
    bad = e1.compare(out.result, np.asarray(eager.result), scope_eager, rtol=rtol)
    which = "eager"
    if bad is None:
        bad = e1.compare(out.result, exp, scope, rtol=rtol)
        which = "numpy-model"
    if bad is None:
        res.outcomes["ok"] += 1
        return
    res.outcomes["mismatch"] += 1
    if bad[0] == "shape":
        res.violate("chunked-shape", case, dict(shape=bad[1]), dict(shape=bad[2]), tags=dict(tags, kind="shape"),
                    size=n * 10 + len(chunks))
        return
    row, g = bad[-2], bad[-1]
    ref = np.asarray(eager.result) if which == "eager" else exp
    res.violate("chunked-value", dict(case, values=V[row], group=order[g], oracle=which),
                np.asarray(out.result)[bad], ref[bad], tags=dict(tags, kind="value", oracle=which),
                size=n * 10 + len(chunks))


def run_deep(res, shard):
    """labels {0,1}^n x every chunking of n x methods {cohorts, None, map-reduce}; a few value rows (not the full alphabet)."""
    func, dtype, n = shard["func"], shard["dtype"], shard["n"]
    base = np.array([1.0, -2.0, 3.5, 0.0, -2.0, 7.0, float("nan"), 1.0])[:n]
    V = np.array([np.roll(base, r) for r in range(3)] + [2.0 ** np.arange(n)], dtype=dtype)
    pairs = [(lt, ch) for lt in itertools.product((0.0, 1.0), repeat=n) for ch in space.compositions(n)]
    pairs = [p for i, p in enumerate(pairs) if i % shard["nparts"] == shard["part"]]
    for lab_tuple, chunks in pairs:
        if len(chunks) < 4:
            continue  # covered by the complete legs
        for method in ("cohorts", None, "map-reduce"):
            check_point(res, func, dtype, "numpy", lab_tuple, chunks, 1, False, method, None, "absent", V)
        if len(chunks) >= 5 and func == "sum":
            # a deeper reduction tree inside each cohort (fan-in 2)
            check_point(res, func, dtype, "numpy", lab_tuple, chunks, 1, False, "cohorts", None, "absent", V, split_every=2)
        res.nontrivial += 3 * V.shape[0]
        res.classes[">=4-blocks"] += 1
    res.sample(dict(leg="deep", func=func, n=n, labels=list(pairs[len(pairs) // 2][0]), chunks=list(pairs[len(pairs) // 2][1]), rows=V.shape[0]))
    return res


def run_shard(shard):
    e1.reset_flox_caches()
    res = Result()
    if shard.get("deep"):
        return run_deep(res, shard)
    if shard.get("nd"):
        return run_nd(res, shard)
    if shard.get("labelchunks"):
        return run_labelchunks(res, shard)
    func, dtype, engine, n = shard["func"], shard["dtype"], shard["engine"], shard["n"]
    V = space.value_matrix(space.alphabet_for(dtype), n, dtype)
    pairs = [(lt, ch) for lt in itertools.product(LABELS, repeat=n) for ch in space.compositions(n)]
    pairs = [p for i, p in enumerate(pairs) if i % shard["nparts"] == shard["part"]]
    for lab_tuple, chunks in pairs:
        if all(lab != lab for lab in lab_tuple):
            continue  # no group at all
        cls = layout_classes(lab_tuple, chunks)
        for c in cls:
            res.classes[c] += 1
        ncfg = 0
        for labels_dask in (False, True):
            for bblocks in (1, 2):
                if bblocks == 2 and (labels_dask or engine != "numpy"):
                    continue
                for method, reindex, exkind in configs(engine, labels_dask, bblocks, shard.get("tier", "thorough")):
                    check_point(res, func, dtype, engine, lab_tuple, chunks, bblocks, labels_dask, method, reindex,
                                exkind, V)
                    ncfg += 1
        if cls and any(c in cls for c in ("all-missing-block", "group-absent-from-block", "group-spans-blocks")):
            res.nontrivial += ncfg * V.shape[0]
        if n == 3 and len(chunks) == 2 and "group-spans-blocks" in cls:
            res.sample(dict(func=func, dtype=dtype, engine=engine, labels=list(lab_tuple), chunks=list(chunks),
                            rows=V.shape[0], configs=ncfg))
    return res


def replay(payload):
    from mc.runner import unjson_float

    res = Result()
    c = payload["case"]
    if c.get("leg") == "nd":
        ints = all(isinstance(x, int) for x in c["labels"])
        return run_nd(res, dict(func=c["func"], shape=c["label_shape"], labkind="int-1" if ints else "float-nan", part=0, nparts=1))
    lab = tuple(unjson_float(c["labels"]))
    n = len(lab)
    V = space.value_matrix(space.alphabet_for(c["dtype"]), n, c["dtype"])
    if n >= 5 and "values" in c:
        V = np.array([unjson_float(c["values"])], dtype=c["dtype"])
    if "label_chunks" in c and "values" in c:
        V = np.array([unjson_float(c["values"])], dtype=c["dtype"])
    check_point(res, c["func"], c["dtype"], c["engine"], lab, tuple(c["chunks"]), c["batch_blocks"], c["labels_dask"],
                c["method"], c["reindex"], c["expected"], V, label_chunks=tuple(c["label_chunks"]) if c.get("label_chunks") else None,
                split_every=c.get("split_every"))
    return res
