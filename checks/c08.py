"""C08  partial-axis reductions and leading (batch) dimensions are independent slices.

E1: value arrays of 1-4 dims x label arrays of 1-3 dims (aligned to the trailing dims, with size-1 broadcast
dims) x every non-empty subset of the label dims as `axis` (every order, positive and negative) x all label
arrays over {0,1,missing} (small sizes) x reductions x eager / every chunk grid {one block, split} per axis."""

from __future__ import annotations

import itertools

import numpy as np

from mc import e1, refmodel as rm
from mc.runner import Result

PROPERTY = "C08"
LEVEL = "model_checking"
TECHNIQUE = "bounded exhaustive enumeration of shapes x label arrays x axis subsets x chunk grids against a slice-by-slice reference model"
ENGINE = "E1"
RULE = (
    "state = (label shape, extra batch dims, label array over {0,1,NaN}, axis subset (order, sign), reduction, eager | chunk grid); "
    "transition = one real groupby_reduce(array, by, axis=...) (+compute). Oracle: slice-by-slice model - for every index of the "
    "kept dims the 1-D grouped NumPy reduction of that slice (absent-in-slice -> fill_value); the stack law (result of a stack == "
    "stack of results) follows since batch dims are enumerated as kept dims; eager and chunked must have the kept dims in array "
    "order and the group axis last. Non-trivial = some label missing from some slice but present in another."
)
ASSUMPTIONS = [
    "small scope: dims of size 1-3, label arrays of at most 6 elements, one extra batch dim of size 2, values fixed per shape (distinct, with NaN and negatives)",
    "a present but all-NaN group in a slice is not compared (flox forces min_count=1 for partial-axis reductions; documented)",
    "arg-reductions and first/last only along a single axis (flox refuses the rest)",
]

NAN = float("nan")
LABEL_SHAPES_QUICK = [(2,), (3,), (2, 2), (1, 3), (3, 1), (2, 3), (1, 2, 2), (2, 1, 2), (2, 2, 1), (2, 2, 2)]
LABEL_SHAPES_THOROUGH = LABEL_SHAPES_QUICK + [(3, 2), (4,), (1, 2, 3), (2, 3, 1), (3, 1, 2)]
FUNCS = ["sum", "nansum", "nanmax", "count", "mean", "var", "nanargmax", "nanfirst"]
CHUNKED_FUNCS = ["sum", "nanmax", "count", "nanargmax", "var"]
FILL = -77.0


def bounds(tier, seed):
    return dict(shapes=LABEL_SHAPES_QUICK if tier == "quick" else LABEL_SHAPES_THOROUGH, max_full=4 if tier == "quick" else 6,
                max_full_3d_labels=4, stratum=(9, seed % 9), stratum_2x2x2=(81, seed % 81),
                chunk_grids="quick: first two and last; thorough: all for <=4 label elements, first three and last two beyond")


def shards(tier, seed):
    b = bounds(tier, seed)
    out = []
    for shp in b["shapes"]:
        size = int(np.prod(shp))
        for extra in (0, 1):
            nparts = {1: 1, 2: 1, 3: 2, 4: 6}.get(size, 4 if tier == "quick" else 24)
            for part in range(nparts):
                # thorough: every labelling of up to 6 elements for 1-D/2-D labels; 3-D labels of 6 elements one stratum of 9
                full = size <= b["max_full"] and not (tier != "quick" and len(shp) == 3 and size > 4)
                stratum = list(b["stratum"]) if (b["stratum"] and not full) else None
                if stratum and size >= 8:
                    stratum = [81, b["stratum"][1] % 81]  # 3-D labels without size-1 dims: 6561 arrays, one stratum of 81
                out.append(dict(shape=list(shp), extra=extra, part=part, nparts=nparts, tier=tier, stratum=stratum))
    out.sort(key=lambda s: -int(np.prod(s["shape"])))
    return out


def values_for(shape):
    n = int(np.prod(shape))
    base = np.array([1.0, -2.0, 3.5, NAN, 0.5, -7.0, 4.0, NAN, 2.0, -1.0, 6.0, 0.25, 9.0, -3.0, NAN, 8.0] * 4)[:n]
    return base.reshape(shape)


def axis_variants(lab_ndim, arr_ndim):
    """Every non-empty subset of the label dims, as array axes, in every order; also the negative spelling."""
    first = arr_ndim - lab_ndim
    out = [None]
    dims = list(range(first, arr_ndim))
    for r in range(1, lab_ndim + 1):
        for sub in itertools.combinations(dims, r):
            perms = list(itertools.permutations(sub)) if r <= 2 else [sub, tuple(reversed(sub))]
            for p in perms:
                out.append(tuple(p))
                out.append(tuple(a - arr_ndim for a in p))
            if r == 1:
                out.append(sub[0])
    return out


def reference(func, arr, by, axes, labels_sorted, min_count=None):
    """Slice-by-slice model.  Returns exp (kept..., G), scope (same shape) ."""
    byf = np.broadcast_to(by, arr.shape[arr.ndim - by.ndim:])
    byf = np.broadcast_to(byf, arr.shape)
    kept = [d for d in range(arr.ndim) if d not in axes]
    kshape = tuple(arr.shape[d] for d in kept)
    G = len(labels_sorted)
    exp = np.full(kshape + (G,), FILL)
    scope = np.ones(kshape + (G,), dtype=bool)
    for idx in np.ndindex(*kshape):
        sl = [slice(None)] * arr.ndim
        for d, i in zip(kept, idx):
            sl[d] = i
        sub = arr[tuple(sl)].reshape(-1)
        lab = byf[tuple(sl)].reshape(-1)
        mem = rm.members(lab.tolist())
        for g, L in enumerate(labels_sorted):
            pos = mem.get(L)
            if not pos:
                continue  # absent in this slice: fill_value
            M = sub[pos][None, :]
            cnt = int((~np.isnan(M)).sum())
            if min_count is not None and cnt < min_count:
                continue  # fewer than min_count valid members in this slice: fill_value
            if cnt == 0:
                scope[idx + (g,)] = False
                continue
            e, s = rm.reduce_members(func, M, positions=pos)
            exp[idx + (g,)] = float(e[0])
            scope[idx + (g,)] = bool(s[0])
    return exp, scope


def check_point(res, func, lab_shape, extra, lab_flat, axis, grid=None, method=None, min_count=None):
    import dask.array as da

    by = np.array(lab_flat, dtype=float).reshape(lab_shape)
    arr_shape = (2,) * extra + tuple(2 if s == 1 else s for s in lab_shape)  # size-1 label dims broadcast against size 2
    arr = values_for(arr_shape)
    kw = dict(func=func, axis=axis, fill_value=FILL)
    if min_count is not None:
        kw["min_count"] = min_count
    a = arr
    if grid is not None:
        a = da.from_array(arr, chunks=grid)
        kw["method"] = method
    out = e1.call_reduce(a, by, **kw)
    res.evaluations += 1
    res.states += 1
    res.transitions += 1
    case = dict(func=func, label_shape=list(lab_shape), extra=extra, labels=list(lab_flat), axis=axis, grid=[list(g) for g in grid] if grid else None,
                method=method, min_count=min_count)
    tags = dict(func=func, chunked=grid is not None, method=str(method), lab_ndim=len(lab_shape), extra=extra)
    size = int(np.prod(arr_shape)) * 10 + (0 if grid is None else sum(len(g) for g in grid))
    if out.kind == "refused":
        res.outcomes[f"refused:{out.exc}"] += 1
        nax_ = len(lab_shape) if axis is None else (1 if isinstance(axis, int) else len(axis))
        if out.exc == "ValueError" and func not in ("nanargmax", "nanfirst"):
            # an aligned `by` and a subset of its dims are inside the documented contract: a ValueError here is a failure,
            # not a documented restriction (those are NotImplementedError: method/strategy limits, multi-axis arg/first/last)
            res.violate("partial-refused", case, out.brief(), "the slice-by-slice result",
                        tags=dict(tags, kind="refused", by_has_size1_dim=any(s == 1 for s in lab_shape), partial=nax_ < len(lab_shape)), size=size)
        return
    if out.kind == "error":
        res.outcomes[f"error:{out.exc}"] += 1
        res.violate("partial-error", case, out.brief(), "a result or a clean refusal", tags=dict(tags, kind="error", exc=out.exc, where=out.where), size=size)
        return
    res.compared += 1
    nd = arr.ndim
    if axis is None:
        axes = tuple(range(nd - by.ndim, nd))
    elif isinstance(axis, int):
        axes = (axis % nd,)
    else:
        axes = tuple(sorted(ax % nd for ax in axis))
    present = sorted(set(x for x in lab_flat if x == x))
    if not rm.same_labels(out.groups[0], present):
        res.violate("partial-labels", case, dict(groups=out.groups[0]), dict(groups=present), tags=dict(tags, kind="labels"), size=size)
        return
    exp, scope = reference(func, arr, by, axes, present, min_count=min_count)
    bad = e1.compare(np.asarray(out.result), exp, scope, rtol=1e-9)
    if bad is None:
        res.outcomes["ok"] += 1
        return
    res.outcomes["mismatch"] += 1
    if bad[0] == "shape":
        res.violate("partial-shape", case, dict(shape=bad[1]), dict(shape=bad[2]), tags=dict(tags, kind="shape"), size=size)
        return
    res.violate("partial-value", dict(case, cell=list(bad)), dict(got=np.asarray(out.result)[bad], result=np.asarray(out.result)), dict(want=exp[bad], expected=exp),
                tags=dict(tags, kind="value"), size=size)


def grids_for(arr_shape):
    per_axis = []
    for s in arr_shape:
        opts = [(s,)]
        if s >= 2:
            opts.append((1,) * s if s == 2 else (1, s - 1))
        per_axis.append(opts)
    return [g for g in itertools.product(*per_axis) if any(len(c) > 1 for c in g)]


def run_shard(shard):
    e1.reset_flox_caches()
    res = Result()
    lab_shape, extra = tuple(shard["shape"]), shard["extra"]
    size = int(np.prod(lab_shape))
    arr_ndim = extra + len(lab_shape)
    labs = [lt for lt in itertools.product((0.0, 1.0, NAN), repeat=size) if any(x == x for x in lt)]
    if shard.get("stratum"):
        k, st = shard["stratum"]
        labs = [lt for i, lt in enumerate(labs) if i % k == st]
    labs = [lt for i, lt in enumerate(labs) if i % shard["nparts"] == shard["part"]]
    axes = axis_variants(len(lab_shape), arr_ndim)
    arr_shape = (2,) * extra + tuple(2 if s == 1 else s for s in lab_shape)
    grids = grids_for(arr_shape)
    quick = shard.get("tier") == "quick"
    for lt in labs:
        uneven = len(set(lt)) > 1
        for axis in axes:
            nax = len(lab_shape) if axis is None else (1 if isinstance(axis, int) else len(axis))
            canonical = axis is None or isinstance(axis, int) or (tuple(sorted(axis)) == tuple(axis) and all(a >= 0 for a in axis))
            for func in FUNCS if canonical else ("sum", "nanargmax"):  # order / sign spellings of an axis: two reductions suffice
                if func in ("nanargmax", "nanfirst") and nax != 1 and not (func == "nanfirst" and nax == len(lab_shape)):
                    continue
                check_point(res, func, lab_shape, extra, lt, axis)
                res.nontrivial += 1 if uneven else 0
                if canonical and func in ("sum", "count", "nanmax"):
                    check_point(res, func, lab_shape, extra, lt, axis, min_count=2)  # an explicit min_count must survive partial axes
            if not canonical:
                # order / sign spellings of the axis on chunked input: first and last grid, sum, explicit and automatic plan
                # (a descending axis tuple used to break every dask plan: "duplicate value in 'axis'" / wrong shape)
                if not (quick and size > 4):
                    for grid in dict.fromkeys((grids[0], grids[-1])):
                        for method in ("map-reduce", None, "cohorts") if nax == len(lab_shape) else ("map-reduce",):
                            check_point(res, "sum", lab_shape, extra, lt, axis, grid=grid, method=method)
                            res.nontrivial += 1 if uneven else 0
                continue
            if quick and size > 4 and size < 8:
                continue
            big = size > 4  # thorough, more than 4 label elements: five grids (first three, last two), both methods for sum only
            for grid in (grids[:2] + grids[-1:]) if quick else (grids[:3] + grids[-2:]) if (big and len(grids) > 5) else grids:
                for func in CHUNKED_FUNCS if not quick else ("sum", "nanmax", "nanargmax"):
                    if func == "nanargmax" and nax != 1:
                        continue
                    for method in (("map-reduce", None) if (not big or func == "sum") else ("map-reduce",)) if not quick else ("map-reduce",) if nax < len(lab_shape) else (None,):
                        check_point(res, func, lab_shape, extra, lt, axis, grid=grid, method=method)
                        res.nontrivial += 1 if uneven else 0
    res.sample(dict(label_shape=list(lab_shape), extra_batch_dims=extra, array_shape=list(arr_shape), labels=list(labs[len(labs) // 2]) if labs else [],
                    axis_variants=[str(a) for a in axes][:8], chunk_grids=len(grids)))
    return res


def replay(payload):
    from mc.runner import unjson_float

    res = Result()
    c = payload["case"]
    axis = c["axis"]
    if isinstance(axis, list):
        axis = tuple(axis)
    grid = tuple(tuple(g) for g in c["grid"]) if c.get("grid") else None
    check_point(res, c["func"], tuple(c["label_shape"]), c["extra"], tuple(unjson_float(c["labels"])), axis, grid=grid, method=c.get("method"),
                min_count=c.get("min_count"))
    return res
