"""C16  group order follows the sort contract; the label -> value pairing never changes.

E1: label tuples over ints / floats with NaN / strings, L^n; sort in {True, False}; expected_groups absent /
sorted / unsorted / with absent members; eager and chunked (every composition of n x method); data = provenance
2**i so that the value attached to a label names the members it was computed from."""

from __future__ import annotations

import itertools

import numpy as np

from mc import e1, refmodel as rm, space
from mc.runner import Result

PROPERTY = "C16"
LEVEL = "model_checking"
TECHNIQUE = "bounded exhaustive enumeration of label tuples x sort x expected_groups x plans on provenance data"
ENGINE = "E1"
RULE = (
    "state = (label kind int|float+NaN|str, label tuple over a 3-letter alphabet (+missing), sort, expected_groups kind, "
    "eager | (chunking composition, method)); transition = one real groupby_reduce(func='sum') (+compute) on provenance "
    "data (element i carries 2**i; a second row carries 2**(i+n)). Oracle: sort=True -> labels strictly ascending, unique; "
    "sort=False -> order of expected_groups if given, order of first appearance if eager; always "
    "dict(zip(labels, values)) == {label: sum of 2**i over its members} and no present/requested label lost or repeated. "
    "Non-trivial = >=2 distinct labels not in ascending order of first appearance, or expected_groups unsorted."
)
ASSUMPTIONS = [
    "small scope: n<=4 (quick) / 5 (thorough), 3 distinct labels + a missing one",
    "for chunked inputs with sort=False and no expected_groups the order itself is unspecified (only the pairing is checked)",
    "string labels: missing labels are not representable, only the 3-letter alphabet is used",
]

NAN = float("nan")
KINDS = {
    "int": ((2, 0, 1), None),
    "float": ((2.0, 0.5, 1.0, NAN), None),
    "str": (("b", "a", "c"), None),
}
EXPECTED = {
    "int": {"absent": None, "sorted": [0, 1, 2], "unsorted": [2, 0, 1], "unsorted+absent": [5, 1, 0], "subset": [1]},
    "float": {"absent": None, "sorted": [0.5, 1.0, 2.0], "unsorted": [2.0, 0.5, 1.0], "unsorted+absent": [5.0, 1.0, 0.5], "subset": [1.0]},
    "str": {"absent": None, "sorted": ["a", "b", "c"], "unsorted": ["c", "a", "b"], "unsorted+absent": ["z", "b", "a"], "subset": ["b"]},
}


def bounds(tier, seed):
    return dict(n=4 if tier == "quick" else 5)


def shards(tier, seed):
    n = bounds(tier, seed)["n"]
    out = []
    for kind in KINDS:
        for m in range(1, n + 1):
            if tier == "quick" and kind == "str" and m == n:
                continue
            nparts = {1: 1, 2: 1, 3: 2, 4: 12, 5: 48}[m]
            for part in range(nparts):
                out.append(dict(kind=kind, n=m, part=part, nparts=nparts, tier=tier))
    out.sort(key=lambda s: -s["n"])
    return out


def make_labels(kind, lt):
    if kind == "int":
        return np.array(lt, dtype=np.int64)
    if kind == "float":
        return np.array(lt, dtype=float)
    return np.array(lt, dtype=str)


def check_point(res, kind, lt, sort, exname, chunks, method, labels_dask=False, egkind="ndarray", reindex=None, func="sum"):
    import dask.array as da

    n = len(lt)
    labels = make_labels(kind, lt)
    prov = 2.0 ** np.arange(n)
    V = np.stack([prov, prov * 2.0**n])
    requested = EXPECTED[kind][exname]
    kw = dict(func=func, sort=sort)  # "argmax" goes through the grouped combine (the data increase with the position: argmax = last member)
    if requested is not None:
        import pandas as pd

        kw["expected_groups"] = np.array(requested) if egkind == "ndarray" else (pd.Index(requested) if egkind == "index" else list(requested))
        kw["fill_value"] = -1.0 if func == "sum" else -1
    arr = V
    by = labels
    if chunks is not None:
        arr = da.from_array(V, chunks=((2,), chunks))
        kw["method"] = method
        if reindex is not None:
            kw["reindex"] = reindex
        if labels_dask:
            by = da.from_array(labels, chunks=(chunks,))
    out = e1.call_reduce(arr, by, **kw)
    res.evaluations += 1
    res.states += 1
    res.transitions += 1
    case = dict(kind=kind, labels=list(lt), sort=sort, expected=exname, chunks=list(chunks) if chunks else None, method=method,
                labels_dask=labels_dask, egkind=egkind, reindex=reindex, func=func)
    tags = dict(func=func, kind2=kind, sort=sort, expected=exname, chunked=chunks is not None, method=str(method), labels_dask=labels_dask, egkind=egkind,
                reindex=str(reindex))
    size = n * 10 + (len(chunks) if chunks else 0)
    if chunks is not None and method == "blockwise":
        # the integer codes flox hands to its automatic rechunk: positions in the (sorted, if sort) requested labels,
        # or in the sorted present labels; -1 for missing / unrequested
        if requested is not None:
            basis = sorted(requested) if sort else list(requested)
        else:
            basis = list(dict.fromkeys(y for y in lt if not rm.label_is_missing(y)))  # order of first appearance
            if sort:
                basis = sorted(basis)
        codes = np.array([basis.index(x) if (not rm.label_is_missing(x) and x in basis) else -1 for x in lt])
        if not e1.blockwise_layout_ok(codes, chunks)[0]:
            res.outcomes["blockwise-precondition-unmet(not asserted)"] += 1
            return
    if out.kind == "refused":
        res.outcomes[f"refused:{out.exc}"] += 1
        return
    if out.kind == "error":
        res.outcomes[f"error:{out.exc}"] += 1
        res.violate("order-error", case, out.brief(), "a result or a clean refusal", tags=dict(tags, kind="error", exc=out.exc), size=size)
        return
    res.compared += 1
    got_labels = [x.item() if isinstance(x, np.generic) else x for x in np.asarray(out.groups[0]).tolist()]
    vals = np.asarray(out.result)
    mem = rm.members(list(lt))
    present_sorted = sorted(mem)
    problems = []
    if vals.shape != (2, len(got_labels)):
        problems.append(f"result shape {vals.shape} does not match {len(got_labels)} labels")
    else:
        # order contract
        if requested is not None:
            want_order = sorted(requested) if sort else list(requested)
            if got_labels != want_order:
                problems.append(f"labels {got_labels} != requested order {want_order}")
        else:
            if len(set(map(repr, got_labels))) != len(got_labels):
                problems.append(f"repeated labels {got_labels}")
            if sorted(got_labels) != present_sorted:
                problems.append(f"labels {got_labels} are not the present labels {present_sorted}")
            if sort and got_labels != present_sorted:
                problems.append(f"sort=True but labels {got_labels} are not ascending")
            if not sort and chunks is None:
                first_app = list(dict.fromkeys(x for x in lt if not rm.label_is_missing(x)))
                if got_labels != first_app:
                    problems.append(f"sort=False eager: labels {got_labels} != order of first appearance {first_app}")
        # pairing
        if not problems:
            for j, lab in enumerate(got_labels):
                pos = mem.get(lab, [])
                if func == "argmax":
                    if vals[0, j] != (max(pos) if pos else -1) or vals[1, j] != (max(pos) if pos else -1):
                        problems.append(f"label {lab!r} is paired with position {vals[0, j]} but its last member is at {max(pos) if pos else 'nowhere (fill -1)'}")
                        break
                    continue
                want = float(sum(prov[p] for p in pos)) if pos else -1.0
                if vals[0, j] != want or vals[1, j] != (want * 2.0**n if pos else -1.0):
                    problems.append(f"label {lab!r} is paired with {vals[0, j]} (members {decode(vals[0, j], n)}) but its members are {pos}")
                    break
    if problems:
        res.outcomes["mismatch"] += 1
        res.violate("order-contract", case, dict(labels=got_labels, values=vals), problems, tags=dict(tags, kind="contract"), size=size)
    else:
        res.outcomes["ok"] += 1


def decode(x, n):
    try:
        x = int(x)
        return [i for i in range(2 * n) if x >> i & 1] if x >= 0 else "fill"
    except Exception:
        return "?"


def run_shard(shard):
    e1.reset_flox_caches()
    res = Result()
    kind, n = shard["kind"], shard["n"]
    alphabet = KINDS[kind][0]
    lts = [lt for i, lt in enumerate(itertools.product(alphabet, repeat=n)) if i % shard["nparts"] == shard["part"]]
    for lt in lts:
        if all(rm.label_is_missing(x) for x in lt):
            continue
        first_app = list(dict.fromkeys(x for x in lt if not rm.label_is_missing(x)))
        nontriv = first_app != sorted(first_app)
        for sort in (True, False):
            for exname in EXPECTED[kind]:
                check_point(res, kind, lt, sort, exname, None, None)
                if nontriv or "unsorted" in exname:
                    res.nontrivial += 1
                if shard.get("tier") == "quick" and exname in ("sorted", "subset"):
                    continue  # chunked legs in the quick tier: absent / unsorted / unsorted+absent
                for ch in space.compositions(n):
                    for method in (None, "map-reduce", "cohorts", "blockwise"):
                        if exname in ("sorted", "subset") and method in ("map-reduce",) and len(ch) > 2:
                            continue
                        check_point(res, kind, lt, sort, exname, ch, method)
                        if nontriv or "unsorted" in exname:
                            res.nontrivial += 1
                        if method == "map-reduce" and len(ch) >= 2:
                            # intermediates reindexed at combine time instead of at the block stage
                            check_point(res, kind, lt, sort, exname, ch, method, reindex=False)
                        if method in ("map-reduce", "cohorts") and len(ch) >= 2 and (not sort or "unsorted" in exname):
                            # a reduction that is combined group by group (not by concatenation): its own reindexing path
                            check_point(res, kind, lt, sort, exname, ch, method, func="argmax")
                    # chunked (dask) labels need expected_groups; given as ndarray / pandas Index / list
                    if exname in ("unsorted", "unsorted+absent") and kind != "str" and len(ch) >= 2:
                        for egkind in ("index", "list", "ndarray"):
                            for method in (None, "map-reduce"):
                                check_point(res, kind, lt, sort, exname, ch, method, labels_dask=True, egkind=egkind)
                                res.nontrivial += 1
    res.sample(dict(kind=kind, labels=list(lts[len(lts) // 2]), sort=[True, False], expected_groups=list(EXPECTED[kind]),
                    data="element i carries 2**i"))
    return res


def replay(payload):
    from mc.runner import unjson_float

    res = Result()
    c = payload["case"]
    lt = tuple(unjson_float(c["labels"])) if c["kind"] == "float" else tuple(c["labels"])
    check_point(res, c["kind"], lt, c["sort"], c["expected"], tuple(c["chunks"]) if c.get("chunks") else None, c.get("method"), func=c.get("func", "sum"),
                labels_dask=c.get("labels_dask", False), egkind=c.get("egkind", "ndarray"), reindex=c.get("reindex"))
    return res
