"""C12  graph construction is lazy; labels discovered at compute time give the same mapping.

E1 over the option product: reduction/scan x method x engine x reindex x labels numpy|dask x expected_groups
given|absent x API (groupby_reduce, groupby_scan, xarray_reduce, rechunk helpers).  Inputs are dask arrays whose
blocks come out of a tripwire task (counts every evaluation); the call itself runs under a scheduler that raises."""

from __future__ import annotations

import collections
import itertools

import numpy as np

from mc import e1, refmodel as rm
from mc.runner import Result

PROPERTY = "C12"
LEVEL = "model_checking"
TECHNIQUE = "exhaustive enumeration of the option product under a raising scheduler with tripwire blocks"
ENGINE = "E1"
RULE = (
    "state = (API, reduction/scan, method, engine, reindex, labels numpy|dask, expected_groups given|absent, label layout, chunking); "
    "transition = the real API call made while every dask compute raises and every input block is wrapped in a counting tripwire, "
    "followed by one compute. Oracle: zero tripwire hits and zero scheduler invocations during the call; the returned object is lazy "
    "(a dask collection / an xarray object holding one); during the compute every input block is produced at most once per consuming block task; for dask labels "
    "without expected_groups dict(zip(groups, result)) equals the eager mapping. Further legs: two groupers (categorical / binned / IntervalIndex, each numpy or dask, "
    "label chunks equal to or different from the array's) and xarray_reduce on DataArrays and Datasets (coordinate, external, two, binned groupers; dim None / name / ...): same oracles, "
    "computed result == the in-memory call. "
    "without expected_groups dict(zip(groups, result)) equals the eager mapping. Non-trivial = dask labels, or a planner decision (method=None)."
)
ASSUMPTIONS = [
    "the whole option product is enumerated on 3 label layouts x 2 chunkings (the property is about configurations, not data)",
    "refusals (ValueError/NotImplementedError) of a configuration are recorded, not violations (C19)",
    "object-dtype labels are outside the property",
]

NAN = float("nan")
TRIP = collections.Counter()
SCHED_CALLS = [0]

FUNCS = ["sum", "nanmax", "count", "nanmean", "var", "argmax", "nanargmin", "nanfirst", "first", "median", "any", "prod", "nanlast"]
LAYOUTS = {
    "interleaved": ([0.0, 1.0, 0.0, 1.0, 2.0, 0.0], (2, 2, 2)),
    "blockwise": ([0.0, 0.0, 1.0, 1.0, 2.0, 2.0], (2, 2, 2)),
    "missing": ([0.0, NAN, 1.0, 1.0, NAN, 0.0], (3, 3)),
    "none-requested": ([7.0, 7.0, 8.0, 8.0, 7.0, 8.0], (2, 2, 2)),  # with expected_groups: no requested label occurs
}


class ComputeDuringCall(RuntimeError):
    pass


def _raising_scheduler(dsk, keys, **kwargs):
    SCHED_CALLS[0] += 1
    raise ComputeDuringCall("a dask compute was triggered while building the graph")


def _trip(block, tag=None, block_info=None):
    loc = block_info[0]["chunk-location"] if block_info else None
    TRIP[(tag, loc)] += 1
    return block


def lazy_array(values, chunks, tag):
    import dask.array as da

    a = da.from_array(np.asarray(values), chunks=chunks)
    return a.map_blocks(_trip, tag=tag, dtype=a.dtype, meta=a._meta)


def bounds(tier, seed):
    return dict(funcs=FUNCS if tier == "thorough" else FUNCS[:10], layouts=list(LAYOUTS))


def shards(tier, seed):
    out = []
    for func in bounds(tier, seed)["funcs"]:
        for layout in LAYOUTS:
            out.append(dict(api="reduce", func=func, layout=layout))
    for func in ("nancumsum", "ffill", "bfill"):
        for layout in LAYOUTS:
            out.append(dict(api="scan", func=func, layout=layout))
    out.append(dict(api="nd-unknown", func="*", layout="*"))
    out.append(dict(api="xarray", func="*", layout="*"))
    for func in ("sum", "nanmax", "count", "argmax", "nanmean", "nanfirst"):
        out.append(dict(api="multi", func=func, layout="*"))
    for obj in ("dataarray", "dataset"):
        for grouper in ("coord", "external", "two", "binned", "cat-binned"):
            for dc in (False, True):
                out.append(dict(api="xarray-multi", func="*", layout="*", obj=obj, grouper=grouper, dask_coord=dc))
    out.append(dict(api="rechunk", func="*", layout="*"))
    return out


def is_lazy(x):
    return hasattr(x, "__dask_graph__") and x.__dask_graph__() is not None


def guarded(fn):
    """Run fn with computes forbidden; returns (kind, value_or_exc, hits_during_call, sched_calls)."""
    import dask

    TRIP.clear()
    SCHED_CALLS[0] = 0
    try:
        with dask.config.set(scheduler=_raising_scheduler):
            val = fn()
        kind = "ok"
    except ComputeDuringCall as e:
        kind, val = "computed", e
    except e1.REFUSALS as e:
        kind, val = "refused", e
    except Exception as e:
        kind, val = "error", e
    return kind, val, sum(TRIP.values()), SCHED_CALLS[0]


def check_reduce(res, func, layout, method, engine, reindex, labels_dask, expected, dtype="float64"):
    import dask
    import flox

    labels, chunks = LAYOUTS[layout]
    labels = np.array(labels)
    n = len(labels)
    V = (np.arange(2 * n, dtype=float).reshape(2, n) * 1.5 - 4).astype(dtype)
    if func == "any":
        V = V > 0
    case = dict(api="reduce", func=func, layout=layout, method=method, engine=engine, reindex=reindex, labels_dask=labels_dask, expected=expected)
    tags = dict(api="reduce", func=func, method=str(method), engine=str(engine), reindex=str(reindex), labels_dask=labels_dask, expected=expected)
    kw = dict(func=func, method=method, engine=engine, reindex=reindex)
    if expected:
        kw["expected_groups"] = np.array([0.0, 1.0, 2.0, 3.0])
        kw["fill_value"] = False if func == "any" else -9
    holder = {}

    def call():
        arr = lazy_array(V, ((1, 1), chunks), "array")
        by = lazy_array(labels, (chunks,), "labels") if labels_dask else labels
        holder["nblocks"] = 2 * len(chunks) + (len(chunks) if labels_dask else 0)
        return flox.groupby_reduce(arr, by, **kw)

    kind, val, hits, sched = guarded(call)
    res.evaluations += 1
    res.states += 1
    res.transitions += 1
    size = 10 + (5 if labels_dask else 0)
    if kind == "refused":
        res.outcomes[f"refused:{type(val).__name__}"] += 1
        return
    if kind == "error":
        res.outcomes[f"error:{type(val).__name__}"] += 1  # internal errors belong to C19; recorded here
        return
    res.compared += 1
    if kind == "computed" or hits or sched:
        res.outcomes["not-lazy"] += 1
        res.violate("eager-evaluation", case, dict(tripwire_hits=hits, scheduler_invocations=sched, blocks=dict((str(k), v) for k, v in TRIP.items())),
                    "no chunk of the value or label arrays is evaluated by the call", tags=dict(tags, kind="evaluated"), size=size)
        return
    result, *groups = val
    if not is_lazy(result):
        res.outcomes["not-a-lazy-array"] += 1
        res.violate("returned-eager-object", case, dict(type=type(result).__name__), "a lazy (dask) array", tags=dict(tags, kind="type",
                    no_requested_label_present=bool(expected and layout == "none-requested")), size=size)
        return
    # compute once: every input block is produced exactly once
    TRIP.clear()
    try:
        got, gl = dask.compute(result, groups, scheduler="sync")
    except e1.REFUSALS:
        res.outcomes["refused-at-compute"] += 1
        return
    except Exception as e:
        res.outcomes[f"error-at-compute:{type(e).__name__}"] += 1
        return
    res.transitions += 1
    # dask may fuse a cheap producer into each of its consumers: a label block feeds one chunk task per batch block (2 here),
    # an array block feeds exactly one
    multi = {str(k): v for k, v in TRIP.items() if v > (2 if k[0] == "labels" else 1)}
    if multi:
        res.outcomes["recomputed-blocks"] += 1
        res.violate("block-evaluated-twice", case, dict(multiply_evaluated=multi), "each input block is produced at most once per consumer",
                    tags=dict(tags, kind="recompute"), size=size)
        return
    # the mapping label -> value equals the eager one
    kw2 = {k: v for k, v in kw.items() if k not in ("method", "reindex")}
    eager = e1.call_reduce(V, labels, **kw2)
    if eager.kind == "ok":
        gm = {repr(float(a)): np.asarray(got)[..., i] for i, a in enumerate(np.asarray(gl[0]).tolist())}
        em = {repr(float(a)): np.asarray(eager.result)[..., i] for i, a in enumerate(np.asarray(eager.groups[0]).tolist())}
        same = gm.keys() == em.keys() and all(not rm.mismatch(np.asarray(gm[k], dtype=float), np.asarray(em[k], dtype=float), rtol=1e-9).any() for k in em)
        labs = np.asarray(gl[0]).tolist()
        ordered = all(labs[i] < labs[i + 1] for i in range(len(labs) - 1))
        if not same or not ordered or any(x != x for x in labs):
            res.outcomes["mapping-differs"] += 1
            res.violate("compute-time-labels", case, dict(labels=labs, values=got), dict(labels=eager.groups[0], values=eager.result),
                        tags=dict(tags, kind="mapping"), size=size)
            return
    res.nontrivial += 1 if (labels_dask or method is None) else 0
    res.outcomes["ok"] += 1


def run_shard(shard):
    e1.reset_flox_caches()
    res = Result()
    api = shard["api"]
    if api == "reduce":
        func, layout = shard["func"], shard["layout"]
        for method, engine, reindex, labels_dask, expected in itertools.product(
                (None, "map-reduce", "cohorts", "blockwise"), (None, "numpy", "flox", "numbagg"), (None, True, False), (False, True), (False, True)):
            check_reduce(res, func, layout, method, engine, reindex, labels_dask, expected)
        res.sample(dict(api=api, func=func, layout=layout, labels=LAYOUTS[layout][0], chunks=list(LAYOUTS[layout][1]),
                        options="method x engine x reindex x labels numpy|dask x expected given|absent"))
    elif api == "scan":
        import flox

        func, layout = shard["func"], shard["layout"]
        labels, chunks = LAYOUTS[layout]
        labels = np.array(labels)
        if func == "nancumsum":
            labels = np.where(np.isnan(labels), 2.0, labels)
        n = len(labels)
        V = np.arange(2 * n, dtype=float).reshape(2, n) - 3
        V[0, 1] = np.nan
        for labels_dask in (False, True):
            for dtype in ("float64", "int64"):
                case = dict(api="scan", func=func, layout=layout, labels_dask=labels_dask, dtype=dtype)
                tags = dict(api="scan", func=func, labels_dask=labels_dask)
                Vd = V if dtype == "float64" else np.nan_to_num(V).astype(dtype)

                def call():
                    arr = lazy_array(Vd, ((1, 1), chunks), "array")
                    by = lazy_array(labels, (chunks,), "labels") if labels_dask else labels
                    return flox.groupby_scan(arr, by, func=func)

                kind, val, hits, sched = guarded(call)
                res.evaluations += 1
                res.states += 1
                res.transitions += 1
                if kind in ("refused", "error"):
                    res.outcomes[f"{kind}:{type(val).__name__}"] += 1
                    continue
                res.compared += 1
                if kind == "computed" or hits or sched:
                    res.violate("eager-evaluation", case, dict(tripwire_hits=hits, scheduler_invocations=sched), "a lazy scan", tags=dict(tags, kind="evaluated"), size=10)
                    continue
                if not is_lazy(val):
                    res.violate("returned-eager-object", case, dict(type=type(val).__name__), "a lazy (dask) array", tags=dict(tags, kind="type"), size=10)
                    continue
                res.nontrivial += 1
                res.outcomes["ok"] += 1
        res.sample(dict(api=api, func=func, layout=layout))
    elif api == "nd-unknown":
        # n-D dask labels without expected_groups: every axis subset must either be refused or give the eager mapping
        import dask
        import dask.array as da
        import flox

        arr = np.arange(16.0).reshape(2, 2, 4) - 5
        by3 = np.array([[[0, 1, 0, 1], [2, 2, 0, 1]], [[3, 3, 3, 3], [-1, -1, 0, 0]]], dtype=float)  # -1 is an ordinary label here
        for by, name in ((by3, "3d"), (by3[0], "2d")):
            nd = by.ndim
            axes = [None] + [tuple(c) for r in range(1, nd + 1) for c in itertools.combinations(range(3 - nd, 3), r)]
            for axis in axes:
                for grid in (((1, 1), (2,), (4,)), ((2,), (1, 1), (2, 2)), ((1, 1), (1, 1), (2, 2))):
                  # the labels are chunked like the array, as a single chunk, or with other boundaries along the last axis
                  same = grid[3 - nd:]
                  for lgrid in dict.fromkeys([same, tuple((sum(g),) for g in same), same[:-1] + ((1, 3),)]):
                    for func in ("sum", "nanmax", "count"):
                        case = dict(api="nd-unknown", labels=name, axis=list(axis) if axis else None, grid=[list(g) for g in grid], label_grid=[list(g) for g in lgrid], func=func)
                        tags = dict(api="nd-unknown", func=func, labels_dask=True, expected=False, label_grid_same=lgrid == same)
                        res.evaluations += 1
                        res.states += 1
                        res.transitions += 1
                        o = e1.call_reduce(da.from_array(arr, chunks=grid), da.from_array(by, chunks=lgrid), func=func, axis=axis, fill_value=-1)
                        if o.kind != "ok":
                            res.outcomes[f"{o.kind}:{o.exc}@{o.where}/{o.origin}"] += 1
                            if o.where == "compute" and o.origin != "flox":
                                # the graph was built without complaint and then fails inside numpy/dask: the labels found at
                                # compute time cannot be assembled
                                res.violate("compute-time-labels", case, o.brief(), "the eager mapping, or a refusal when the graph is built",
                                            tags=dict(tags, kind="compute-failure", exc=o.exc), size=20)
                            continue
                        got, labs = o.result, o.groups[0]
                        eg = e1.call_reduce(arr, by, func=func, axis=axis, fill_value=-1)
                        res.compared += 1
                        res.nontrivial += 1
                        if eg.kind == "ok" and (list(np.asarray(labs).tolist()) != list(np.asarray(eg.groups[0]).tolist())
                                                or np.asarray(got).shape != np.asarray(eg.result).shape
                                                or rm.mismatch(np.asarray(got, dtype=float), np.asarray(eg.result, dtype=float), rtol=1e-9).any()):
                            res.outcomes["mapping-differs"] += 1
                            res.violate("compute-time-labels", case, dict(labels=labs, values=got), dict(labels=eg.groups[0], values=eg.result),
                                        tags=dict(tags, kind="mapping"), size=20)
                        else:
                            res.outcomes["ok"] += 1
        res.sample(dict(api=api, labels="2-D and 3-D dask labels without expected_groups", axis="every subset", grids=3))
    elif api == "xarray":
        import xarray as xr
        from flox.xarray import xarray_reduce

        labels, chunks = LAYOUTS["interleaved"]
        n = len(labels)
        for func, method, chunked_coord, expected in itertools.product(("sum", "mean", "max", "count", "nanargmax", "var"), (None, "map-reduce", "cohorts"), (False, True), (False, True)):
            case = dict(api="xarray", func=func, method=method, dask_coord=chunked_coord, expected=expected)
            tags = dict(api="xarray", func=func, method=str(method), labels_dask=chunked_coord, expected=expected)

            def call():
                arr = lazy_array(np.arange(2 * n, dtype=float).reshape(2, n), ((1, 1), chunks), "array")
                lab = lazy_array(np.array(labels), (chunks,), "labels") if chunked_coord else np.array(labels)
                da_ = xr.DataArray(arr, dims=("y", "x"), coords={"lab": ("x", lab)}, name="v")
                kw = dict(func=func, method=method)
                if expected:
                    kw["expected_groups"] = np.array([0.0, 1.0, 2.0])
                return xarray_reduce(da_, "lab", **kw)

            kind, val, hits, sched = guarded(call)
            res.evaluations += 1
            res.states += 1
            res.transitions += 1
            if kind in ("refused", "error"):
                res.outcomes[f"{kind}:{type(val).__name__}"] += 1
                continue
            res.compared += 1
            if kind == "computed" or hits or sched:
                res.violate("eager-evaluation", case, dict(tripwire_hits=hits, scheduler_invocations=sched), "a lazy result", tags=dict(tags, kind="evaluated"), size=10)
                continue
            if not is_lazy(val.data if hasattr(val, "data") else val):
                res.violate("returned-eager-object", case, dict(type=type(getattr(val, "data", val)).__name__), "an xarray object wrapping a lazy array",
                            tags=dict(tags, kind="type"), size=10)
                continue
            res.nontrivial += 1
            res.outcomes["ok"] += 1
        res.sample(dict(api=api, funcs=["sum", "mean", "max", "count", "nanargmax", "var"]))
    elif api == "multi":
        run_multi(res, shard["func"])
    elif api == "xarray-multi":
        run_xarray_multi(res, shard.get("obj"), shard.get("grouper"), shard.get("dask_coord"))
    elif api == "rechunk":
        import flox

        labels = np.array([0, 0, 1, 1, 1, 2])
        for helper in ("blockwise", "cohorts"):
            for chunks in ((2, 2, 2), (3, 3), (1, 5)):
                case = dict(api="rechunk", helper=helper, chunks=list(chunks))

                def call():
                    arr = lazy_array(np.arange(12.0).reshape(2, 6), ((1, 1), chunks), "array")
                    if helper == "blockwise":
                        return flox.rechunk_for_blockwise(arr, -1, labels)
                    return flox.rechunk_for_cohorts(arr, -1, labels + 1, force_new_chunk_at=[1], chunksize=2)

                kind, val, hits, sched = guarded(call)
                res.evaluations += 1
                res.states += 1
                res.transitions += 1
                res.compared += 1
                if kind != "ok" or hits or sched or not is_lazy(val):
                    res.violate("eager-evaluation", case, dict(kind=kind, tripwire_hits=hits, scheduler_invocations=sched, err=str(val)[:100] if kind != "ok" else ""),
                                "a lazy rechunked array", tags=dict(api="rechunk", kind="evaluated"), size=10)
                    continue
                res.nontrivial += 1
                res.outcomes["ok"] += 1
        res.sample(dict(api=api, helpers=["rechunk_for_blockwise", "rechunk_for_cohorts"]))
    return res


def _lazy_verdict(res, kind, val, hits, sched, case, tags, what, size=15):
    """Common part: classify the guarded call. Returns True when the call returned a value lazily."""
    res.evaluations += 1
    res.states += 1
    res.transitions += 1
    if kind in ("refused", "error"):
        res.outcomes[f"{kind}:{type(val).__name__}"] += 1
        return False
    res.compared += 1
    if kind == "computed" or hits or sched:
        res.outcomes["not-lazy"] += 1
        res.violate("eager-evaluation", case, dict(tripwire_hits=hits, scheduler_invocations=sched, blocks=dict((str(k), v) for k, v in TRIP.items())),
                    what, tags=dict(tags, kind="evaluated"), size=size)
        return False
    return True


def run_multi(res, func):
    """Two groupers (categorical x categorical|binned), each numpy or dask, on a 2-block-row array: lazy call, then the computed
    table equals the eager one."""
    import dask
    import flox
    import pandas as pd

    lab1 = np.array([0.0, 1.0, 0.0, NAN, 2.0, 0.0])
    lab2 = np.array([10, 10, 20, 20, 10, 30])
    chunks = (2, 2, 2)
    V = np.arange(12, dtype=float).reshape(2, 6) * 1.5 - 4
    V[1, 2] = NAN
    bins = {"cat": (np.array([10, 20, 30]), False), "edges": (np.array([5, 15, 25, 35]), True),
            "interval": (pd.IntervalIndex.from_breaks([5, 15, 25, 35], closed="left"), True), "cat-subset": (np.array([20, 10]), False)}
    for d1, d2, bk, method, reindex, lchunks in itertools.product((False, True), (False, True), bins, (None, "map-reduce", "cohorts", "blockwise"),
                                                               (None, True, False), ("same", "other")):
        if lchunks == "other" and not (d1 or d2):
            continue
        eg2, isbin = bins[bk]
        lc = chunks if lchunks == "same" else (3, 3)
        case = dict(api="multi", func=func, by1_dask=d1, by2_dask=d2, grouper2=bk, method=method, reindex=reindex, label_chunks=list(lc))
        tags = dict(api="multi", func=func, method=str(method), reindex=str(reindex), labels_dask=d1 or d2, expected=True, grouper2=bk)
        kw = dict(func=func, expected_groups=(np.array([0.0, 1.0, 2.0]), eg2), isbin=(False, isbin), fill_value=-9, sort=bk != "cat-subset")

        def call():
            arr = lazy_array(V, ((1, 1), chunks), "array")
            b1 = lazy_array(lab1, (lc,), "labels") if d1 else lab1
            b2 = lazy_array(lab2, (lc,), "labels2") if d2 else lab2
            return flox.groupby_reduce(arr, b1, b2, method=method, reindex=reindex, **kw)

        kind, val, hits, sched = guarded(call)
        if not _lazy_verdict(res, kind, val, hits, sched, case, tags, "no chunk of the value or label arrays is evaluated by the call"):
            continue
        result, *groups = val
        if not is_lazy(result):
            res.outcomes["not-a-lazy-array"] += 1
            res.violate("returned-eager-object", case, dict(type=type(result).__name__), "a lazy (dask) array", tags=dict(tags, kind="type"), size=15)
            continue
        TRIP.clear()
        try:
            got = result.compute(scheduler="sync")
        except e1.REFUSALS:
            res.outcomes["refused-at-compute"] += 1
            continue
        except Exception as e:
            res.outcomes[f"error-at-compute:{type(e).__name__}"] += 1
            res.violate("compute-time-labels", case, dict(exc=type(e).__name__, msg=str(e)[:160]), "the eager table", tags=dict(tags, kind="compute-failure", exc=type(e).__name__), size=15)
            continue
        res.transitions += 1
        # label blocks feed one chunk task per batch block (2) - and, rechunked to the array's chunks, at most twice that
        lim = 2 if lchunks == "same" else 4
        multi = {str(k): v for k, v in TRIP.items() if v > (lim if str(k[0]).startswith("labels") else 1)}
        if multi:
            res.outcomes["recomputed-blocks"] += 1
            res.violate("block-evaluated-twice", case, dict(multiply_evaluated=multi), "each input block is produced at most once per consumer",
                        tags=dict(tags, kind="recompute"), size=15)
            continue
        eager = e1.call_reduce(V, lab1, lab2, **kw)
        if eager.kind != "ok":
            res.outcomes[f"eager-{eager.kind}:{eager.exc}"] += 1
            continue
        exp = np.asarray(eager.result, dtype=float)
        obs = np.asarray(got, dtype=float)
        if obs.shape != exp.shape or rm.mismatch(obs, exp, rtol=1e-9).any():
            res.outcomes["mapping-differs"] += 1
            res.violate("compute-time-labels", case, dict(values=got), dict(values=eager.result), tags=dict(tags, kind="mapping"), size=15)
            continue
        res.nontrivial += 1
        res.outcomes["ok"] += 1
    res.sample(dict(api="multi", func=func, groupers="categorical float with NaN x {categorical, categorical subset unsorted, bin edges, IntervalIndex}",
                    options="numpy|dask per grouper x method x reindex x label chunks same|other"))


def run_xarray_multi(res, only_obj=None, only_grouper=None, only_dc=None):
    """xarray_reduce beyond one DataArray and one coordinate: Datasets, two groupers, binning, an external DataArray grouper,
    explicit dim; lazy call, then values equal the same call on the in-memory object."""
    import pandas as pd
    import xarray as xr
    from flox.xarray import xarray_reduce

    lab1 = np.array([0.0, 1.0, 0.0, 1.0, 2.0, 0.0])
    lab2 = np.array([10, 10, 20, 20, 10, 30])
    chunks = (2, 2, 2)
    n = 6
    V = np.arange(2 * n, dtype=float).reshape(2, n) - 3
    W = np.arange(n, dtype=float) * 2

    def build(lazy, kindobj, dask_coord, grouper):
        arr = lazy_array(V, ((1, 1), chunks), "array") if lazy else V
        w = lazy_array(W, (chunks,), "array2") if lazy else W
        l1 = lazy_array(lab1, (chunks,), "labels") if (lazy and dask_coord) else lab1
        l2 = lazy_array(lab2, (chunks,), "labels2") if (lazy and dask_coord) else lab2
        coords = {"lab": ("x", l1), "lab2": ("x", l2), "y": [5, 6]}
        if kindobj == "dataarray":
            obj = xr.DataArray(arr, dims=("y", "x"), coords=coords, name="v", attrs={"a": 1})
        else:
            obj = xr.Dataset({"v": (("y", "x"), arr), "w": (("x",), w), "const": (("y",), np.array([1.0, 2.0]))}, coords=coords)
        if grouper == "coord":
            by, eg, isbin = ("lab",), (np.array([0.0, 1.0, 2.0]),), (False,)
        elif grouper == "external":
            by, eg, isbin = (xr.DataArray(l1, dims=("x",), name="ext"),), (np.array([0.0, 1.0, 2.0]),), (False,)
        elif grouper == "two":
            by, eg, isbin = ("lab", "lab2"), (np.array([0.0, 1.0, 2.0]), np.array([10, 20, 30])), (False, False)
        elif grouper == "binned":
            by, eg, isbin = ("lab2",), (np.array([5, 15, 25, 35]),), (True,)
        else:  # cat x binned
            by, eg, isbin = ("lab", "lab2"), (np.array([0.0, 1.0, 2.0]), pd.IntervalIndex.from_breaks([5, 15, 25, 35])), (False, True)
        return obj, by, eg, isbin

    for kindobj, dask_coord, grouper, func, method, dim in itertools.product(
            ("dataarray", "dataset"), (False, True), ("coord", "external", "two", "binned", "cat-binned"),
            ("sum", "nanmean", "max", "count", "var", "nanargmax", "first"), (None, "map-reduce", "cohorts"), (None, "x", ...)):
        if func == "nanargmax" and kindobj == "dataset":
            continue
        if (only_obj and kindobj != only_obj) or (only_grouper and grouper != only_grouper) or (only_dc is not None and dask_coord != only_dc):
            continue
        case = dict(api="xarray-multi", obj=kindobj, dask_coord=dask_coord, grouper=grouper, func=func, method=method, dim=str(dim))
        tags = dict(api="xarray-multi", obj=kindobj, func=func, method=str(method), labels_dask=dask_coord, expected=True, grouper=grouper, dim=str(dim))

        def call(lazy=True):
            obj, by, eg, isbin = build(lazy, kindobj, dask_coord, grouper)
            kw = dict(func=func, expected_groups=eg, isbin=isbin, fill_value=-9 if func != "nanargmax" else -1)
            if lazy:
                kw["method"] = method
            if dim is not None:
                kw["dim"] = dim
            return xarray_reduce(obj, *by, **kw)

        kind, val, hits, sched = guarded(call)
        if not _lazy_verdict(res, kind, val, hits, sched, case, tags, "a lazy xarray result"):
            continue
        lazy_vars = [val] if kindobj == "dataarray" else [val[k] for k in ("v", "w")]
        if not all(is_lazy(v.data) for v in lazy_vars):
            res.outcomes["not-a-lazy-array"] += 1
            res.violate("returned-eager-object", case, dict(types=[type(v.data).__name__ for v in lazy_vars]), "xarray variables wrapping lazy arrays",
                        tags=dict(tags, kind="type"), size=15)
            continue
        TRIP.clear()
        try:
            got = val.compute(scheduler="sync")
        except Exception as e:
            res.outcomes[f"error-at-compute:{type(e).__name__}"] += 1
            if not isinstance(e, e1.REFUSALS):
                res.violate("compute-time-labels", case, dict(exc=type(e).__name__, msg=str(e)[:160]), "the in-memory result", tags=dict(tags, kind="compute-failure", exc=type(e).__name__), size=15)
            continue
        res.transitions += 1
        try:
            exp = call(lazy=False)
        except Exception as e:
            res.outcomes[f"eager-error:{type(e).__name__}"] += 1
            continue
        bad = None
        pairs = [("v", got, exp)] if kindobj == "dataarray" else [(k, got[k], exp[k]) for k in exp.data_vars]
        if kindobj == "dataset" and set(got.data_vars) != set(exp.data_vars):
            bad = ("variables", sorted(got.data_vars), sorted(exp.data_vars))
        for name, g, x in pairs:
            if bad:
                break
            if g.dims != x.dims or g.shape != x.shape:
                bad = ("dims:" + name, [list(g.dims), list(g.shape)], [list(x.dims), list(x.shape)])
            elif rm.mismatch(np.asarray(g.values, dtype=float), np.asarray(x.values, dtype=float), rtol=1e-9).any():
                bad = ("values:" + name, g.values, x.values)
        if bad:
            res.outcomes["mapping-differs"] += 1
            res.violate("compute-time-labels", case, dict(what=bad[0], got=bad[1]), dict(expected=bad[2]), tags=dict(tags, kind="mapping", what=bad[0].split(":")[0]), size=15)
            continue
        res.nontrivial += 1
        res.outcomes["ok"] += 1
    res.sample(dict(api="xarray-multi", objects=["DataArray", "Dataset (2-D var, 1-D var, var without the dim)"],
                    groupers=["coordinate", "external DataArray", "two coordinates", "binned", "categorical x IntervalIndex"], dims=["None", "x", "..."]))


def replay(payload):
    res = Result()
    c = payload["case"]
    if c["api"] == "reduce":
        check_reduce(res, c["func"], c["layout"], c["method"], c["engine"], c["reindex"], c["labels_dask"], c["expected"])
        return res
    if c["api"] == "xarray-multi":
        return run_shard(dict(api=c["api"], func="*", layout="*", obj=c["obj"], grouper=c["grouper"], dask_coord=c["dask_coord"]))
    return run_shard(dict(api=c["api"], func=c.get("func", "*"), layout=c.get("layout", "*")))
