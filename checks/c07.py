"""C07  multi-variable grouping == tuple-key grouping; binning == pandas.cut.

E1: (a) bins: every tuple of label values over {-inf,-1,0,0.5,1,1.5,2,3,+inf,NaN}^n x edge sets given as
edges (isbin) or pd.IntervalIndex closed left/right x eager / chunked / dask labels; (b) 1-3 groupers over
{0,1,missing}^n each categorical or binned, equal shapes or broadcasting size-1 axes, eager and chunked.
Data = provenance 2**i so the result names the members of every cell."""

from __future__ import annotations

import itertools

import numpy as np

from mc import e1, space
from mc.runner import Result

PROPERTY = "C07"
LEVEL = "model_checking"
TECHNIQUE = "bounded exhaustive enumeration of bin-edge values and multi-grouper label tuples against pandas.cut / tuple-key model"
ENGINE = "E1"
RULE = (
    "state (bins) = (edge set, edges|IntervalIndex(closed), label-value tuple over the 10-letter alphabet, eager | chunking "
    "x method | dask labels); state (multi) = (number of groupers 1-3, kind of each (categorical|binned), label tuples over "
    "{0,1,missing}^n, layout flat | broadcast (a,1)x(1,b), eager | chunked); transition = one real groupby_reduce(func='sum') "
    "on provenance data. Oracle: pandas.cut codes / tuple-key dict -> expected members of every cell, result shape "
    "batch+(len(g1),len(g2),...), returned labels per grouper. Non-trivial = a value on a bin edge or outside all bins or "
    "missing; for multi: >=2 groupers with some element dropped because one of its labels is missing."
)
ASSUMPTIONS = [
    "small scope: n<=3 label values per bins case (1000 tuples), n<=3 elements and <=3 groupers for tuple keys",
    "pandas.cut on the same IntervalIndex is the specification of bin membership",
    "empty cells are requested with fill_value=-1 (C05 owns fill semantics)",
]

INF = float("inf")
NAN = float("nan")
BIN_VALUES = (-INF, -1.0, 0.0, 0.5, 1.0, 1.5, 2.0, 3.0, INF, NAN)
EDGES = ([0, 1, 2], [0, 1, 3], [0.0, 1.0], [0, 2], [1, 2, 3], [0, 1, 2, 4])
LAB = (0.0, 1.0, NAN)


def bounds(tier, seed):
    return dict(bins_n=3, bins_chunked_n=2 if tier == "quick" else 3, multi_n=3 if tier == "quick" else 4)


def shards(tier, seed):
    b = bounds(tier, seed)
    out = []
    for ei in range(len(EDGES)):
        for how in ("edges", "ii-right", "ii-left"):
            out.append(dict(leg="bins", edges=ei, how=how, n=b["bins_n"], chunked_n=b["bins_chunked_n"]))
    for ng in (1, 2, 3):
        for kinds in itertools.product(("cat", "bin"), repeat=ng):
            for n in range(1, b["multi_n"] + 1):
                if ng == 3 and n > (2 if tier == "quick" else 3):
                    continue
                nparts = 1 if (ng < 3 and n < 4) else (3 if n < 4 else 6)
                for part in range(nparts):
                    out.append(dict(leg="multi", kinds=list(kinds), n=n, part=part, nparts=nparts))
    for kinds in itertools.product(("cat", "bin"), repeat=2):
        out.append(dict(leg="broadcast", kinds=list(kinds)))
    for n in (2, 3) if tier == "quick" else (2, 3, 4):
        nparts = {2: 1, 3: 6, 4: 48}[n]
        for part in range(nparts):
            out.append(dict(leg="mixed", n=n, part=part, nparts=nparts, tier=tier))
    return out


def interval_index(edges, how):
    import pandas as pd

    if how == "ii-left":
        return pd.IntervalIndex.from_breaks(edges, closed="left")
    return pd.IntervalIndex.from_breaks(edges, closed="right")


def grouper_spec(kind):
    """(expected_groups argument, isbin flag, function label value -> slot index or -1, number of slots, returned labels)"""
    import pandas as pd

    if kind == "cat":
        labels = [0.0, 1.0, 2.0]  # 2.0 never occurs: an absent requested label

        def code(v):
            return labels.index(v) if (v == v and v in labels) else -1

        return np.array(labels), False, code, 3, labels
    edges = [-0.5, 0.5, 1.5]
    ii = pd.IntervalIndex.from_breaks(edges)

    def code(v):
        if v != v:
            return -1
        return int(pd.cut([v], ii).codes[0])

    return np.array(edges), True, code, 2, ii


def check_bins(res, edges, how, vals, chunks=None, method=None, labels_dask=False):
    import dask.array as da
    import pandas as pd

    n = len(vals)
    by = np.array(vals, dtype=float)
    prov = 2.0 ** np.arange(n)
    V = np.stack([prov, prov * 2.0**n])
    ii = interval_index(edges, how)
    kw = dict(func="sum", fill_value=-1.0)
    if how == "edges":
        kw.update(expected_groups=np.array(edges), isbin=True)
    else:
        kw.update(expected_groups=ii)
    arr, byarg = V, by
    if chunks is not None:
        arr = da.from_array(V, chunks=((2,), chunks))
        kw["method"] = method
        if labels_dask:
            byarg = da.from_array(by, chunks=(chunks,))
    out = e1.call_reduce(arr, byarg, **kw)
    res.evaluations += 1
    res.states += 1
    res.transitions += 1
    case = dict(leg="bins", edges=list(edges), how=how, values=list(vals), chunks=list(chunks) if chunks else None, method=method,
                labels_dask=labels_dask)
    tags = dict(leg2="bins", how=how, chunked=chunks is not None, labels_dask=labels_dask, method=str(method))
    size = n * 10 + (len(chunks) if chunks else 0)
    if out.kind == "refused":
        res.outcomes[f"refused:{out.exc}"] += 1
        return
    if out.kind == "error":
        res.outcomes[f"error:{out.exc}"] += 1
        res.violate("bins-error", case, out.brief(), "a result", tags=dict(tags, kind="error", exc=out.exc), size=size)
        return
    res.compared += 1
    codes = pd.cut(by, ii).codes
    want = np.full((2, len(ii)), -1.0)
    for slot in range(len(ii)):
        pos = np.flatnonzero(codes == slot)
        if len(pos):
            want[0, slot] = prov[pos].sum()
            want[1, slot] = prov[pos].sum() * 2.0**n
    got = np.asarray(out.result)
    glab = out.groups[0]
    okl = isinstance(glab, pd.IntervalIndex) and glab.equals(ii) or (hasattr(glab, "__len__") and len(glab) == len(ii) and list(glab) == list(ii))
    if got.shape != want.shape or not np.array_equal(got, want) or not okl:
        res.outcomes["mismatch"] += 1
        res.violate("bins-membership", case, dict(sums=got, labels=[str(x) for x in glab]), dict(sums=want, pandas_cut_codes=codes, labels=[str(x) for x in ii]),
                    tags=dict(tags, kind="value" if okl else "labels"), size=size)
    else:
        res.outcomes["ok"] += 1


def check_multi(res, kinds, bys, shape=None, chunks=None, method=None, broadcast=False):
    """bys: list of label tuples (one per grouper); flat layout unless broadcast (then by1 is (a,1), by2 is (1,b))."""
    import dask.array as da
    import pandas as pd

    specs = [grouper_spec(k) for k in kinds]
    if broadcast:
        a, b = len(bys[0]), len(bys[1])
        full = [np.repeat(np.array(bys[0], dtype=float)[:, None], b, axis=1), np.repeat(np.array(bys[1], dtype=float)[None, :], a, axis=0)]
        byargs = [np.array(bys[0], dtype=float)[:, None], np.array(bys[1], dtype=float)[None, :]]
        n = a * b
        prov = (2.0 ** np.arange(n)).reshape(a, b)
    else:
        n = len(bys[0])
        full = [np.array(t, dtype=float) for t in bys]
        byargs = list(full)
        prov = 2.0 ** np.arange(n)
    V = np.stack([prov, prov * 2.0**n])
    kw = dict(func="sum", fill_value=-1.0, expected_groups=tuple(s[0] for s in specs), isbin=tuple(s[1] for s in specs))
    if len(kinds) == 1:
        kw["expected_groups"] = specs[0][0]
        kw["isbin"] = specs[0][1]
    arr = V
    if chunks is not None:
        arr = da.from_array(V, chunks=((2,),) + tuple(chunks))
        kw["method"] = method
    out = e1.call_reduce(arr, *byargs, **kw)
    res.evaluations += 1
    res.states += 1
    res.transitions += 1
    case = dict(leg="multi", kinds=list(kinds), bys=[list(t) for t in bys], chunks=[list(c) for c in chunks] if chunks else None,
                method=method, broadcast=broadcast)
    tags = dict(leg2="multi", ngroupers=len(kinds), kinds="+".join(kinds), chunked=chunks is not None, method=str(method), broadcast=broadcast)
    size = n * 10 + len(kinds)
    if out.kind == "refused":
        res.outcomes[f"refused:{out.exc}"] += 1
        return
    if out.kind == "error":
        res.outcomes[f"error:{out.exc}"] += 1
        res.violate("multi-error", case, out.brief(), "a result", tags=dict(tags, kind="error", exc=out.exc), size=size)
        return
    res.compared += 1
    gshape = tuple(s[3] for s in specs)
    want = np.full((2,) + gshape, -1.0)
    acc = {}
    flat = [f.ravel() for f in full]
    pf = prov.ravel()
    for i in range(n):
        key = tuple(specs[g][2](float(flat[g][i])) for g in range(len(kinds)))
        if any(k < 0 for k in key):
            continue
        acc[key] = acc.get(key, 0.0) + pf[i]
    for key, s in acc.items():
        want[(0,) + key] = s
        want[(1,) + key] = s * 2.0**n
    got = np.asarray(out.result)
    problems = []
    if got.shape != want.shape:
        problems.append(f"shape {got.shape} != {want.shape}")
    elif not np.array_equal(got, want):
        problems.append("cell values differ from the tuple-key model")
    if len(out.groups) != len(kinds):
        problems.append(f"{len(out.groups)} label arrays returned for {len(kinds)} groupers")
    else:
        for g, (spec, lab) in enumerate(zip(specs, out.groups)):
            wantlab = spec[4]
            same = (len(lab) == len(wantlab) and list(lab) == list(wantlab)) if isinstance(wantlab, pd.IntervalIndex) else list(np.asarray(lab).tolist()) == list(wantlab)
            if not same:
                problems.append(f"labels of grouper {g}: {list(lab)} != {list(wantlab)}")
    if problems:
        res.outcomes["mismatch"] += 1
        res.violate("multi-tuple-key", case, dict(result=got, labels=[[str(x) for x in lab] for lab in out.groups]), dict(expected=want, problems=problems),
                    tags=dict(tags, kind="value"), size=size)
    else:
        res.outcomes["ok"] += 1


def check_mixed(res, bys, chunks, sort):
    """Two categorical groupers: the first is a dask array with expected_groups, the second stays in memory WITHOUT
    expected_groups (its labels are whatever occurs).  Oracle: the eager call on the same data."""
    import dask.array as da

    n = len(bys[0])
    full = [np.array(t, dtype=float) for t in bys]
    prov = 2.0 ** np.arange(n)
    V = np.stack([prov, prov * 2.0**n])
    kw = dict(func="sum", fill_value=-1.0, expected_groups=(np.array([0.0, 1.0, 2.0]), None), sort=sort)
    eager = e1.call_reduce(V, *full, **kw)
    out = e1.call_reduce(da.from_array(V, chunks=((2,), chunks)), da.from_array(full[0], chunks=(chunks,)), full[1], **kw)
    res.evaluations += 1
    res.states += 1
    res.transitions += 2
    case = dict(leg="mixed", bys=[list(t) for t in bys], chunks=list(chunks), sort=sort)
    tags = dict(leg2="mixed", sort=sort, nblocks=len(chunks))
    if eager.kind != "ok" or out.kind == "refused":
        res.outcomes[f"{out.kind}/{eager.kind}"] += 1
        return
    if out.kind == "error":
        res.outcomes[f"error:{out.exc}"] += 1
        res.violate("multi-error", case, out.brief(), "a result", tags=dict(tags, kind="error", exc=out.exc), size=n * 10)
        return
    res.compared += 1
    same = (np.asarray(out.result).shape == np.asarray(eager.result).shape and np.array_equal(out.result, eager.result, equal_nan=True)
            and all(list(np.asarray(a).tolist()) == list(np.asarray(b).tolist()) or (len(a) == len(b) and np.array_equal(np.asarray(a, dtype=float), np.asarray(b, dtype=float), equal_nan=True))
                    for a, b in zip(out.groups, eager.groups)))
    if not same:
        res.outcomes["mismatch"] += 1
        res.violate("multi-mixed-numpy-dask", case, dict(result=out.result, labels=[list(np.asarray(g).tolist()) for g in out.groups]),
                    dict(eager=eager.result, labels=[list(np.asarray(g).tolist()) for g in eager.groups]), tags=dict(tags, kind="value"), size=n * 10 + len(chunks))
    else:
        res.outcomes["ok"] += 1


def run_shard(shard):
    e1.reset_flox_caches()
    res = Result()
    if shard["leg"] == "mixed":
        n = shard["n"]
        second = (7.0, 5.0, NAN) if (n <= 2 or shard.get("tier") != "quick") else (7.0, 5.0)
        firsts = [t for i, t in enumerate(itertools.product((0.0, 1.0, NAN), repeat=n)) if i % shard.get("nparts", 1) == shard.get("part", 0)]
        for t1 in firsts:
            for t2 in itertools.product(second, repeat=n):
                for ch in space.compositions(n):
                    for sort in (True, False):
                        check_mixed(res, [t1, t2], ch, sort)
                        res.nontrivial += 1 if len(ch) > 1 else 0
        res.sample(dict(leg="mixed", n=n, groupers=["dask with expected_groups", "numpy without expected_groups"]))
        return res
    if shard["leg"] == "bins":
        edges, how = EDGES[shard["edges"]], shard["how"]
        for n in range(1, shard["n"] + 1):
            for vals in itertools.product(BIN_VALUES, repeat=n):
                check_bins(res, edges, how, vals)
                onedge = any(v in edges for v in vals) or any(v != v or v < min(edges) or v > max(edges) for v in vals)
                res.nontrivial += 1 if onedge else 0
                if n <= shard["chunked_n"] and n >= 2:
                    for ch in space.compositions(n):
                        if len(ch) < 2:
                            continue
                        for method in ("map-reduce", "cohorts"):
                            check_bins(res, edges, how, vals, chunks=ch, method=method)
                        check_bins(res, edges, how, vals, chunks=ch, method=None, labels_dask=True)
        res.sample(dict(leg="bins", edges=list(edges), how=how, example_values=[0.0, 1.0, "nan"], data="element i carries 2**i"))
    elif shard["leg"] == "multi":
        kinds, n = shard["kinds"], shard["n"]
        combos = itertools.product(*[list(itertools.product(LAB, repeat=n)) for _ in kinds])
        for i, bys in enumerate(combos):
            if i % shard["nparts"] != shard["part"]:
                continue
            check_multi(res, kinds, bys)
            dropped = any(any(x != x for x in t) for t in bys)
            res.nontrivial += 1 if (len(kinds) >= 2 and dropped) else 0
            if n in (2, 3) and len(kinds) <= 2:
                for ch in space.compositions(n):
                    if len(ch) < 2:
                        continue
                    for method in ("map-reduce", "cohorts", None):
                        check_multi(res, kinds, bys, chunks=(ch,), method=method)
        res.sample(dict(leg="multi", kinds=kinds, n=n, example=[[0.0, "nan", 1.0][:n]] * len(kinds)))
    else:
        kinds = shard["kinds"]
        for a, b in ((1, 2), (2, 1), (2, 2), (2, 3), (3, 2)):
            for t1 in itertools.product(LAB, repeat=a):
                for t2 in itertools.product(LAB, repeat=b):
                    check_multi(res, kinds, [t1, t2], broadcast=True)
                    res.nontrivial += 1
                    if a * b <= 4:
                        for c1 in space.compositions(a):
                            for c2 in space.compositions(b):
                                if len(c1) * len(c2) < 2:
                                    continue
                                check_multi(res, kinds, [t1, t2], chunks=(c1, c2), method="map-reduce", broadcast=True)
        res.sample(dict(leg="broadcast", kinds=kinds, shapes="(a,1) x (1,b), a,b<=3"))
    return res


def replay(payload):
    from mc.runner import unjson_float

    res = Result()
    c = payload["case"]
    if c["leg"] == "mixed":
        check_mixed(res, [tuple(unjson_float(t)) for t in c["bys"]], tuple(c["chunks"]), c["sort"])
        return res
    if c["leg"] == "bins":
        check_bins(res, c["edges"], c["how"], tuple(unjson_float(c["values"])), chunks=tuple(c["chunks"]) if c.get("chunks") else None,
                   method=c.get("method"), labels_dask=c.get("labels_dask", False))
    else:
        bys = [tuple(unjson_float(t)) for t in c["bys"]]
        check_multi(res, c["kinds"], bys, chunks=tuple(tuple(x) for x in c["chunks"]) if c.get("chunks") else None, method=c.get("method"),
                    broadcast=c.get("broadcast", False))
    return res
