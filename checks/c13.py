"""C13  generated tasks are pure, re-executable and serialisable.

E3: for every graph of a configuration sweep (reductions by combine kind x strategies x engines, scans, raw and
dask.optimize'd), BFS over ALL order ideals of the task DAG; every transition executes the real task object on
the stored values and checks that (a) every input value and the user's arrays are bit-identical afterwards,
(b) the output equals the first output ever seen for that task; then every finished task is executed again
(lost worker), every task + inputs go through a cloudpickle round trip, the whole graph is run once with all
input buffers read-only, and the public compute is checked to leave the user's arrays untouched."""

from __future__ import annotations

import collections

import numpy as np

from mc import e1, graphcfg, graphx
from mc.runner import Result

PROPERTY = "C13"
LEVEL = "model_checking"
TECHNIQUE = "explicit-state model checking of real task graphs: BFS over all order ideals with purity/determinism digests, re-execution, pickling, read-only inputs, cross-call interference"
ENGINE = "E3"
RULE = (
    "state = order ideal (set of executed tasks) of a real flox task graph; transition = execute one ready task (the task "
    "object from the graph, i.e. real flox code) on the values stored so far; all ideals = all topological execution orders "
    "are visited (BFS with bitmask states). Checks on every transition: input digests unchanged (purity), output digest == "
    "first digest of that task (re-executable / order independent). Plus per graph: re-execution of every task at the top "
    "ideal in both directions, cloudpickle round trip of every task and its inputs, one run with read-only inputs, and the "
    "user's original arrays compared before/after a public compute. Non-trivial = a graph with >=2 blocks sharing an input."
)
ASSUMPTIONS = [
    "graphs with <=5 blocks along the reduced axis (quick) / <=6 (thorough); a cap on ideals is reported if hit",
    "digest = structural hash of arrays (dtype, shape, bytes), dicts, tuples, pandas indexes, dataclasses",
    "the per-call copy of the aggregation embedded in the graph is a task constant, not an input (its mutation is covered by re-execution)",
    "interleavings: two concurrently running tasks sharing an input, every flox source line a switch point, preemption bound 1 (quick) / 2 at call granularity (thorough)",
]


def bounds(tier, seed):
    return dict(k=[3, 4, 5] if tier == "quick" else [3, 4, 5, 6], max_states=60000 if tier == "quick" else 400000)


def configs(tier):
    b = bounds(tier, 0)
    bb2 = 3 if tier == "quick" else 4
    cfgs = graphcfg.reduce_cfgs(b["k"], bb2_max_k=bb2) + graphcfg.scan_cfgs(b["k"], bb2_max_k=0 if tier == "quick" else 3)
    extra = []
    for c in cfgs:
        if c.get("batch_blocks") == 1 and c.get("split_every") is None and len(c["chunks"]) <= 4:
            extra.append(dict(c, optimize=True))
    return cfgs + extra + graphcfg.wide_cfgs(tier)


def shards(tier, seed):
    out = [dict(cfg=c, max_states=bounds(tier, seed)["max_states"]) for c in configs(tier)]
    out.sort(key=lambda s: -len(s["cfg"]["chunks"]) * s["cfg"].get("batch_blocks", 1))
    out += [dict(interference=i) for i in range(len(interference_pairs()))]
    # interleavings of two tasks sharing an input (E4): every flox source line of either task is tried as the preemption point
    from mc import ilv

    out += [dict(threads=True, **s) for s in ilv.shards(tier, 1 if tier == "quick" else 2)]
    return out


def run_cfg(res, cfg, max_states):
    tags = dict(kind2=cfg["kind"], func=cfg["func"], method=str(cfg.get("method")), engine=str(cfg.get("engine")),
                optimize=bool(cfg.get("optimize")), labels_dask=bool(cfg.get("labels_dask")))
    size = len(cfg["chunks"]) * 10 + cfg.get("batch_blocks", 1)
    try:
        colls, user, eager = graphcfg.build(cfg)
    except e1.REFUSALS as e:
        res.outcomes[f"refused:{type(e).__name__}"] += 1
        return
    except Exception as e:
        res.outcomes[f"error:{type(e).__name__}"] += 1
        res.violate("build-error", cfg, dict(exc=type(e).__name__, msg=str(e)[:200]), "a graph", tags=dict(tags, kind="error"), size=size)
        return
    before = user.pop("_before")  # digests taken BEFORE the flox call (graph construction must not touch arguments either)
    g = graphx.TaskGraph(colls)
    counters = collections.Counter()
    try:
        r = graphx.explore_orders(g, max_states=max_states, counters=counters)
        res.states += r["states"]
        res.transitions += r["transitions"]
        res.evaluations += r["transitions"]
        res.compared += r["transitions"]
        res.extra["linear_extensions_represented"] += r["linear_extensions"]
        res.extra["tasks"] += r["ntasks"]
        if r["capped"]:
            res.caps.append(f"ideal cap {max_states} hit for {cfg['func']}/{cfg.get('method')} k={len(cfg['chunks'])}")
        else:
            graphx.pickle_roundtrip(g, r["store"], counters=counters)
            graphx.readonly_run(g, counters=counters)
            n = counters["pickled_executions"] + counters["readonly_executions"]
            res.transitions += n
            res.evaluations += n
            res.compared += counters["pickled_executions"]
        res.extra.update(counters)
        # the final store must be what the public compute returns, and the user's arrays must be untouched
        import dask

        got = dask.compute(*colls, scheduler="sync")
        flat = [r["store"][k] for k in g.out_keys] if not r["capped"] else None
        after = {k: graphx.digest(v) for k, v in user.items()}
        if after != before:
            res.violate("user-input-mutated", cfg, dict(changed=[k for k in before if before[k] != after[k]], now=user),
                        "arguments are never modified", tags=dict(tags, kind="user-input"), size=size)
            return
        res.nontrivial += 1 if len(cfg["chunks"]) >= 2 else 0
        res.outcomes["ok"] += 1
        res.sample(dict(cfg=cfg, tasks=r["ntasks"], ideals=r["states"], executions=r["transitions"],
                        linear_extensions=str(r["linear_extensions"])))
    except graphx.Finding as f:
        res.outcomes[f.kind] += 1
        res.violate("task-" + f.kind, dict(cfg=cfg, task=str(f.task)), f.detail, "pure, deterministic, serialisable task",
                    tags=dict(tags, kind=f.kind, task_layer=str(f.task[0] if isinstance(f.task, tuple) else f.task).rsplit("-", 1)[0]),
                    size=size)
    except e1.REFUSALS as e:
        res.outcomes[f"refused-at-compute:{type(e).__name__}"] += 1
    except Exception as e:
        res.outcomes[f"error:{type(e).__name__}"] += 1
        res.violate("task-error", cfg, dict(exc=type(e).__name__, msg=str(e)[:300]), "tasks execute", tags=dict(tags, kind="error", exc=type(e).__name__), size=size)


def run_interference(res, cfgA, cfgB):
    """A graph, once built, is a closed value: building and computing ANOTHER graph that shares argument objects (the same
    user Aggregation object, the same arrays) must not change what the tasks of the first graph return - neither for
    the in-process graph nor for a copy that was pickled before the second call."""
    import cloudpickle
    import dask

    tags = dict(kind2="interference", func=cfgA["func"], then=cfgB["func"])
    try:
        collsA, userA, _ = graphcfg.build(cfgA)
        userA.pop("_before")
        r0 = dask.compute(*collsA, scheduler="sync")
        shipped = cloudpickle.dumps(collsA)
        collsB, userB, _ = graphcfg.build(cfgB)
        dask.compute(*collsB, scheduler="sync")
    except e1.REFUSALS as e:
        res.outcomes[f"refused:{type(e).__name__}"] += 1
        return
    d0 = graphx.digest([np.asarray(x) for x in r0])
    g = graphx.TaskGraph(collsA)
    try:
        r = graphx.explore_orders(g, max_states=20000)
    except graphx.Finding as f:
        res.violate("task-" + f.kind, dict(cfg=cfgA, then=cfgB, task=str(f.task)), f.detail, "pure task", tags=dict(tags, kind=f.kind), size=50)
        return
    res.states += r["states"]
    res.transitions += r["transitions"]
    res.evaluations += r["transitions"]
    res.compared += r["transitions"]
    again = dask.compute(*collsA, scheduler="sync")
    there = dask.compute(*cloudpickle.loads(shipped), scheduler="sync")
    d1 = graphx.digest([np.asarray(x) for x in again])
    d2 = graphx.digest([np.asarray(x) for x in there])
    res.transitions += 2
    if d1 != d0 or d2 != d0:
        res.violate("graph-changed-by-later-call", dict(cfg=cfgA, then=cfgB), dict(recomputed_here=again, shipped_copy=there),
                    dict(first_compute=r0), tags=dict(tags, kind="interference", here=d1 != d0, shipped=d2 != d0), size=50)
        return
    res.nontrivial += 1
    res.outcomes["ok"] += 1
    res.sample(dict(leg="interference", first=cfgA, then=cfgB, ideals=r["states"]))


def interference_pairs():
    NAN = graphcfg.NAN
    base = dict(kind="reduce", method="map-reduce", dtype="float64", engine="numpy", labels=[0, 1, 0, NAN, 1, 0], chunks=[2, 2, 2], batch_blocks=1,
                expected=[0, 1, 2])
    out = []
    for ua in ("sumsq", "range"):
        a = dict(base, func=ua, user_agg=ua, fill_value=-1)
        out.append((a, dict(a, fill_value=-99)))
        if ua == "sumsq":  # ("range" uses +-inf fills, which are undefined for integers: a user error, not flox's)
            out.append((a, dict(a, dtype="int64", fill_value=-7)))
        out.append((a, dict(a, method="cohorts", fill_value=5)))
    out.append((dict(base, func="nanmax", fill_value=-1), dict(base, func="nanmax", fill_value=-99, dtype="int64")))
    out.append((dict(base, func="var", fill_value=-1, finalize_kwargs=dict(ddof=0)), dict(base, func="var", fill_value=-1, finalize_kwargs=dict(ddof=1))))
    return out


def run_shard(shard):
    e1.reset_flox_caches()
    res = Result()
    if shard.get("threads"):
        from mc import ilv

        ilv.run(res, shard)
        return res
    if shard.get("interference") is not None:
        a, b = interference_pairs()[shard["interference"]]
        run_interference(res, a, b)
        return res
    run_cfg(res, shard["cfg"], shard["max_states"])
    return res


def replay(payload):
    res = Result()
    c = payload["case"]
    cfg = c.get("cfg", c)
    from mc.runner import unjson_float

    if "schedule" in c or "pair" in c:
        from mc import ilv

        ilv.replay(res, c)
        return res
    if "then" in c:
        run_interference(res, dict(cfg, labels=unjson_float(cfg["labels"])), dict(c["then"], labels=unjson_float(c["then"]["labels"])))
        return res

    cfg = dict(cfg, labels=unjson_float(cfg["labels"]))
    run_cfg(res, cfg, 400000)
    return res
