"""C13  generated tasks are pure, re-executable and serialisable.

E3: for every graph of a configuration sweep (reductions by combine kind x strategies x engines, scans, raw and
dask.optimize'd), BFS over ALL order ideals of the task DAG; every transition executes the real task object on
the stored values and checks that (a) every input value and the user's arrays are bit-identical afterwards,
(b) the output equals the first output ever seen for that task; then every finished task is executed again
(lost worker), every task + inputs go through a cloudpickle round trip, the whole graph is run once with all
input buffers read-only, and the public compute is checked to leave the user's arrays untouched."""

from __future__ import annotations

import collections

import numpy as np

from mc import e1, graphcfg, graphx
from mc.runner import Result

PROPERTY = "C13"
LEVEL = "model_checking"
ENGINE = "E3"
RULE = (
    "state = order ideal (set of executed tasks) of a real flox task graph; transition = execute one ready task (the task "
    "object from the graph, i.e. real flox code) on the values stored so far; all ideals = all topological execution orders "
    "are visited (BFS with bitmask states). Checks on every transition: input digests unchanged (purity), output digest == "
    "first digest of that task (re-executable / order independent). Plus per graph: re-execution of every task at the top "
    "ideal in both directions, cloudpickle round trip of every task and its inputs, one run with read-only inputs, and the "
    "user's original arrays compared before/after a public compute. Non-trivial = a graph with >=2 blocks sharing an input."
)
ASSUMPTIONS = [
    "graphs with <=5 blocks along the reduced axis (quick) / <=6 (thorough); a cap on ideals is reported if hit",
    "digest = structural hash of arrays (dtype, shape, bytes), dicts, tuples, pandas indexes, dataclasses",
    "the per-call copy of the aggregation embedded in the graph is a task constant, not an input (its mutation is covered by re-execution)",
    "interleavings of concurrently running tasks are explored by the E4 leg (two tasks, line granularity)",
]


def bounds(tier, seed):
    return dict(k=[3, 4, 5] if tier == "quick" else [3, 4, 5, 6], max_states=60000 if tier == "quick" else 400000)


def configs(tier):
    b = bounds(tier, 0)
    bb2 = 3 if tier == "quick" else 4
    cfgs = graphcfg.reduce_cfgs(b["k"], bb2_max_k=bb2) + graphcfg.scan_cfgs(b["k"], bb2_max_k=0 if tier == "quick" else 3)
    extra = []
    for c in cfgs:
        if c.get("batch_blocks") == 1 and c.get("split_every") is None and len(c["chunks"]) <= 4:
            extra.append(dict(c, optimize=True))
    return cfgs + extra


def shards(tier, seed):
    out = [dict(cfg=c, max_states=bounds(tier, seed)["max_states"]) for c in configs(tier)]
    out.sort(key=lambda s: -len(s["cfg"]["chunks"]) * s["cfg"].get("batch_blocks", 1))
    return out


def run_cfg(res, cfg, max_states):
    tags = dict(kind2=cfg["kind"], func=cfg["func"], method=str(cfg.get("method")), engine=str(cfg.get("engine")),
                optimize=bool(cfg.get("optimize")), labels_dask=bool(cfg.get("labels_dask")))
    size = len(cfg["chunks"]) * 10 + cfg.get("batch_blocks", 1)
    try:
        colls, user, eager = graphcfg.build(cfg)
    except e1.REFUSALS as e:
        res.outcomes[f"refused:{type(e).__name__}"] += 1
        return
    except Exception as e:
        res.outcomes[f"error:{type(e).__name__}"] += 1
        res.violate("build-error", cfg, dict(exc=type(e).__name__, msg=str(e)[:200]), "a graph", tags=dict(tags, kind="error"), size=size)
        return
    before = {k: graphx.digest(v) for k, v in user.items()}
    g = graphx.TaskGraph(colls)
    counters = collections.Counter()
    try:
        r = graphx.explore_orders(g, max_states=max_states, counters=counters)
        res.states += r["states"]
        res.transitions += r["transitions"]
        res.evaluations += r["transitions"]
        res.compared += r["transitions"]
        res.extra["linear_extensions_represented"] += r["linear_extensions"]
        res.extra["tasks"] += r["ntasks"]
        if r["capped"]:
            res.caps.append(f"ideal cap {max_states} hit for {cfg['func']}/{cfg.get('method')} k={len(cfg['chunks'])}")
        else:
            graphx.pickle_roundtrip(g, r["store"], counters=counters)
            graphx.readonly_run(g, counters=counters)
            n = counters["pickled_executions"] + counters["readonly_executions"]
            res.transitions += n
            res.evaluations += n
            res.compared += counters["pickled_executions"]
        res.extra.update(counters)
        # the final store must be what the public compute returns, and the user's arrays must be untouched
        import dask

        got = dask.compute(*colls, scheduler="sync")
        flat = [r["store"][k] for k in g.out_keys] if not r["capped"] else None
        after = {k: graphx.digest(v) for k, v in user.items()}
        if after != before:
            res.violate("user-input-mutated", cfg, dict(changed=[k for k in before if before[k] != after[k]], now=user),
                        "arguments are never modified", tags=dict(tags, kind="user-input"), size=size)
            return
        res.nontrivial += 1 if len(cfg["chunks"]) >= 2 else 0
        res.outcomes["ok"] += 1
        res.sample(dict(cfg=cfg, tasks=r["ntasks"], ideals=r["states"], executions=r["transitions"],
                        linear_extensions=str(r["linear_extensions"])))
    except graphx.Finding as f:
        res.outcomes[f.kind] += 1
        res.violate("task-" + f.kind, dict(cfg=cfg, task=str(f.task)), f.detail, "pure, deterministic, serialisable task",
                    tags=dict(tags, kind=f.kind, task_layer=str(f.task[0] if isinstance(f.task, tuple) else f.task).rsplit("-", 1)[0]),
                    size=size)
    except e1.REFUSALS as e:
        res.outcomes[f"refused-at-compute:{type(e).__name__}"] += 1
    except Exception as e:
        res.outcomes[f"error:{type(e).__name__}"] += 1
        res.violate("task-error", cfg, dict(exc=type(e).__name__, msg=str(e)[:300]), "tasks execute", tags=dict(tags, kind="error", exc=type(e).__name__), size=size)


def run_shard(shard):
    e1.reset_flox_caches()
    res = Result()
    run_cfg(res, shard["cfg"], shard["max_states"])
    return res


def replay(payload):
    res = Result()
    c = payload["case"]
    cfg = c.get("cfg", c)
    from mc.runner import unjson_float

    cfg = dict(cfg, labels=unjson_float(cfg["labels"]))
    run_cfg(res, cfg, 400000)
    return res
