"""C20  numeric fidelity: infinities are data, narrow integers do not wrap, var/std stable eager vs chunked.

E1, three legs:
 (a) all value tuples over {1,-2,0,NaN,+inf,-inf}^n x all label tuples x {min,max,nanmin,nanmax} x every engine,
     eager and every chunking x method;
 (b) int8/uint8/int16/uint16/int32 arrays over {max, max-1, min, 1} whose group totals exceed the input width x
     {sum,nansum,prod,nanprod,mean,nancumsum} x engines, eager and chunked (intermediates!), against Python ints;
 (c) var/std/nanvar/nanstd on all tuples over {0,1,2,3}+offset (offset 0 / 100) x ddof {0,1}: every engine and
     every chunking against NumPy, 1e-9 relative; count<=ddof must be NaN everywhere."""

from __future__ import annotations

import itertools

import numpy as np

from mc import e1, refmodel as rm, space
from mc.runner import Result

PROPERTY = "C20"
LEVEL = "model_checking"
TECHNIQUE = "bounded exhaustive enumeration over infinity / narrow-integer / variance alphabets against NumPy and exact integers"
ENGINE = "E1"
RULE = (
    "state = (leg, reduction, engine, dtype, label tuple, eager | (chunking, method), value tuple over the leg's alphabet); "
    "transition = one real groupby_reduce / groupby_scan call (+compute) with all value tuples as batch rows; oracle = "
    "NumPy in float64 / exact Python integers. Non-trivial: (a) a group whose true extreme is +-inf or that mixes inf and NaN; "
    "(b) a group total outside the input dtype's range; (c) a group with >= 2 members."
)
ASSUMPTIONS = [
    "small scope: n<=3 (quick) / 4 (thorough); alphabets {1,-2,0,NaN,+inf,-inf}, {max,max-1,min,1} per integer width, {0,1,2,3}+{0,100}",
    "var/std accuracy is claimed only for well-conditioned data (|mean|/std <= 1e2) at 1e-9 relative",
    "results are compared in the value domain; the announced dtype is C11's",
]

INF = float("inf")
NAN = float("nan")
A_INF = (1.0, -2.0, 0.0, NAN, INF, -INF)
LABELS = (0.0, 1.0, NAN)
ENGINES = ("numpy", "flox", "numbagg", "numba", None)
INT_DTYPES = ("int8", "uint8", "int16", "uint16", "int32")


def bounds(tier, seed):
    return dict(n=3 if tier == "quick" else 4, int_n=3 if tier == "quick" else 4, var_n=3 if tier == "quick" else 4)


def shards(tier, seed):
    b = bounds(tier, seed)
    out = []
    for engine in ENGINES:
        for func in ("min", "max", "nanmin", "nanmax"):
            out.append(dict(leg="inf", engine=engine, func=func, n=b["n"], chunked=False))
        for func in ("sum", "nansum", "prod", "nanprod", "mean"):
            for dtype in INT_DTYPES:
                if tier == "quick" and engine in ("numba", "numbagg") and dtype not in ("int8", "uint16"):
                    continue
                out.append(dict(leg="int", engine=engine, func=func, dtype=dtype, n=b["int_n"], chunked=False))
        for func in ("var", "std", "nanvar", "nanstd"):
            out.append(dict(leg="var", engine=engine, func=func, n=b["var_n"], chunked=False))
    for engine in ("numpy", "flox", "numbagg"):
        for func in ("max", "nanmax", "nanmin"):
            out.append(dict(leg="inf", engine=engine, func=func, n=b["n"], chunked=True))
        for func in ("sum", "nanprod", "mean"):
            for dtype in ("int8", "uint8", "int16"):
                out.append(dict(leg="int", engine=engine, func=func, dtype=dtype, n=b["int_n"], chunked=True))
        for func in ("var", "nanstd"):
            out.append(dict(leg="var", engine=engine, func=func, n=b["var_n"], chunked=True))
    for dtype in INT_DTYPES:
        out.append(dict(leg="cumsum", dtype=dtype, n=b["int_n"]))
    # var/std of narrow-integer data (squares exceed the input width): eager and chunked, every engine
    for engine in ("numpy", "flox", "numbagg"):
        for func in ("var", "nanvar", "std"):
            for dtype in ("int8", "uint8", "int16", "int64"):
                for chunked in (False, True):
                    out.append(dict(leg="intvar", engine=engine, func=func, dtype=dtype, n=b["var_n"], chunked=chunked))
                    if dtype != "int64":
                        # members spread over the whole dtype: the *difference* of two members exceeds the input width
                        out.append(dict(leg="intvar", engine=engine, func=func, dtype=dtype, n=b["var_n"], chunked=chunked, alpha="spread"))
    out.sort(key=lambda s: (0 if s.get("engine") in ("numba", "numbagg") else 1, 0 if s.get("chunked") else 1))
    return out


def int_alphabet(dtype):
    ii = np.iinfo(dtype)
    return (ii.max, ii.max - 1, ii.min, 1)


def intvar_alphabet(dtype, alpha=None):
    """Values whose squares exceed the width of the dtype (for int64: beyond 2**63, yet well-conditioned: spread ~3% of the mean).
    alpha='spread': members at both ends of the dtype, so that member - member does not fit the input width either."""
    if alpha == "spread":
        ii = np.iinfo(dtype)
        return (ii.max, ii.min, ii.min + 1, ii.max // 2)
    if dtype == "int64":
        return (3_000_000_000, 3_100_000_000, 2_900_000_000, 3_050_000_000)
    ii = np.iinfo(dtype)
    return (ii.max, ii.max - 1, ii.max - 3, ii.max // 2)


def exact_int_reduce(func, V, lab_tuple, order):
    """Exact (Python int / Fraction-free float) reference for integer data."""
    mem = rm.members(list(lab_tuple))
    B = V.shape[0]
    out = np.empty((B, len(order)), dtype=object)
    for gi, lab in enumerate(order):
        pos = mem[lab]
        for r in range(B):
            vals = [int(x) for x in V[r, pos]]
            if func in ("sum", "nansum"):
                out[r, gi] = sum(vals)
            elif func in ("prod", "nanprod"):
                p = 1
                for x in vals:
                    p *= x
                out[r, gi] = p
            elif func == "mean":
                out[r, gi] = sum(vals) / len(vals)
    return out


def run_point(res, shard, lab_tuple, V, chunks=None, method=None, kwextra=None, leg_oracle=None, dtype=None):
    import dask.array as da

    func, engine = shard["func"], shard["engine"]
    labels = np.array(lab_tuple, dtype=float)
    kw = dict(func=func, engine=engine)
    if kwextra:
        kw.update(kwextra)
    arr = V
    if chunks is not None:
        arr = da.from_array(V, chunks=((V.shape[0],), chunks))
        kw["method"] = method
    out = e1.call_reduce(arr, labels, **kw)
    B = V.shape[0]
    res.evaluations += B
    res.states += B
    res.transitions += 1
    n = len(lab_tuple)
    case = dict(leg=shard["leg"], func=func, engine=engine, dtype=str(V.dtype), labels=list(lab_tuple), chunks=list(chunks) if chunks else None,
                method=method, kw=kwextra)
    if shard.get("alpha"):
        case["alpha"] = shard["alpha"]
    tags = dict(leg2=shard["leg"], func=func, engine=str(engine), dtype=str(V.dtype), chunked=chunks is not None, method=str(method))
    size = n * 10 + (len(chunks) if chunks else 0)
    if out.kind == "refused":
        res.outcomes[f"refused:{out.exc}"] += 1
        return
    if out.kind == "error":
        res.outcomes[f"error:{out.exc}"] += 1
        res.violate("numeric-error", case, out.brief(), "a result or a clean refusal", tags=dict(tags, kind="error", exc=out.exc), size=size)
        return
    mem = rm.members(list(lab_tuple))
    order = sorted(mem)
    res.compared += B
    if not rm.same_labels(out.groups[0], order):
        res.violate("numeric-labels", case, dict(groups=out.groups[0]), dict(groups=order), tags=dict(tags, kind="labels"), size=size)
        return
    obs = np.asarray(out.result)
    if shard["leg"] == "int":
        exp = exact_int_reduce(func, V, lab_tuple, order)
        if obs.shape != exp.shape:
            res.violate("numeric-shape", case, dict(shape=list(obs.shape)), dict(shape=list(exp.shape)), tags=dict(tags, kind="shape"), size=size)
            return
        if func == "mean":
            bad = rm.mismatch(obs.astype(float), exp.astype(float), rtol=1e-12)
        else:
            # exact integer comparison where the true value fits the result dtype; products beyond int64/uint64 are out of scope
            info = np.iinfo(obs.dtype) if obs.dtype.kind in "iu" else None
            bad = np.zeros(exp.shape, dtype=bool)
            for idx in np.ndindex(exp.shape):
                want = exp[idx]
                if info is not None and not (info.min <= want <= info.max):
                    continue
                if info is None and abs(want) > 2**53:
                    continue
                bad[idx] = int(obs[idx]) != want if info is not None else float(obs[idx]) != float(want)
        if bad.any():
            idx = tuple(int(i) for i in np.argwhere(bad)[0])
            res.outcomes["mismatch"] += 1
            res.violate("numeric-int-wrap", dict(case, values=V[idx[0]], group=order[idx[1]]), dict(got=obs[idx], result_dtype=str(obs.dtype)),
                        dict(exact=exp[idx]), tags=dict(tags, kind="value"), size=size)
            return
        res.outcomes["ok"] += 1
        return
    fk = (kwextra or {}).get("finalize_kwargs", {})
    exp, scope, present = e1.expected_table(func, V, list(lab_tuple), order, **fk)
    isvar = shard["leg"] in ("var", "intvar")
    rtol = 1e-9 if isvar else 0.0
    if shard["leg"] == "intvar":
        exp, scope, present = e1.expected_table(func, V.astype("float64"), list(lab_tuple), order, **fk)
    bad = e1.compare(obs, exp, scope, rtol=rtol, atol=((1e-6 if V.dtype.itemsize < 8 else 1e3) if shard["leg"] == "intvar" else 1e-12) if isvar else 0.0)
    if bad is None:
        res.outcomes["ok"] += 1
        return
    res.outcomes["mismatch"] += 1
    if bad[0] == "shape":
        res.violate("numeric-shape", case, dict(shape=bad[1]), dict(shape=bad[2]), tags=dict(tags, kind="shape"), size=size)
        return
    row, g = bad
    vals = V[row][mem[order[g]]]
    res.violate("numeric-value", dict(case, values=V[row], group=order[g], members=vals), obs[bad], exp[bad],
                tags=dict(tags, kind="value", has_inf=bool(np.isinf(vals.astype(float)).any()), has_nan=bool(rm.isnull(vals).any())), size=size)


def run_shard(shard):
    e1.reset_flox_caches()
    res = Result()
    leg = shard["leg"]
    n = shard["n"]
    if leg == "cumsum":
        return run_cumsum(res, shard)
    for m in range(1, n + 1):
        if leg == "inf":
            V = space.value_matrix(A_INF, m, "float64")
            variants = [None]
        elif leg == "int":
            V = space.value_matrix(int_alphabet(shard["dtype"]), m, shard["dtype"])
            variants = [None]
        elif leg == "intvar":
            V = space.value_matrix(intvar_alphabet(shard["dtype"], shard.get("alpha")), m, shard["dtype"])
            variants = [None]
        else:
            base = space.value_matrix((0.0, 1.0, 2.0, 3.0), m, "float64")
            if shard["func"].startswith("nan"):
                base = np.concatenate([base, np.where(np.arange(m)[None, :] == 0, NAN, base[: 4 ** (m - 1) if m > 1 else 1])])
            V = None
            variants = [(off, ddof) for off in (0.0, 100.0) for ddof in (0, 1)]
        for lt in itertools.product(LABELS, repeat=m):
            if all(x != x for x in lt):
                continue
            for var in variants:
                kwextra = None
                Vv = V
                if leg == "intvar":
                    kwextra = dict(finalize_kwargs=dict(ddof=0))
                if leg == "var":
                    off, ddof = var
                    Vv = base + off
                    kwextra = dict(finalize_kwargs=dict(ddof=ddof))
                if not shard["chunked"]:
                    run_point(res, shard, lt, Vv, kwextra=kwextra)
                    res.nontrivial += Vv.shape[0]
                else:
                    for ch in space.compositions(m):
                        if len(ch) < 2:
                            continue
                        for method in ("map-reduce", "cohorts", None):
                            run_point(res, shard, lt, Vv, chunks=ch, method=method, kwextra=kwextra)
                            res.nontrivial += Vv.shape[0]
    res.sample(dict(leg=leg, func=shard["func"], engine=shard["engine"], dtype=shard.get("dtype", "float64"), n=n, chunked=shard["chunked"],
                    alphabet=[str(x) for x in (A_INF if leg == "inf" else (int_alphabet(shard["dtype"]) if leg == "int" else (0, 1, 2, 3)))]))
    return res


def run_cumsum(res, shard):
    """nancumsum on narrow integers: accumulated in the platform integer, eager and chunked."""
    import dask.array as da

    dtype, n = shard["dtype"], shard["n"]
    for m in range(1, n + 1):
        V = space.value_matrix(int_alphabet(dtype), m, dtype)
        for lt in itertools.product((0.0, 1.0), repeat=m):
            mem = rm.members(list(lt))
            exp = np.zeros(V.shape, dtype=object)
            for lab, pos in mem.items():
                for r in range(V.shape[0]):
                    acc = 0
                    for p in pos:
                        acc += int(V[r, p])
                        exp[r, p] = acc
            for ch in [None] + [c for c in space.compositions(m) if len(c) >= 2]:
                arr = V if ch is None else da.from_array(V, chunks=((V.shape[0],), ch))
                out = e1.call_scan(arr, np.array(lt), func="nancumsum")
                res.evaluations += V.shape[0]
                res.states += V.shape[0]
                res.transitions += 1
                res.nontrivial += V.shape[0]
                case = dict(leg="cumsum", dtype=dtype, labels=list(lt), chunks=list(ch) if ch else None)
                tags = dict(leg2="cumsum", dtype=dtype, chunked=ch is not None)
                if out.kind != "ok":
                    res.outcomes[f"{out.kind}:{out.exc}"] += 1
                    if out.kind == "error":
                        res.violate("numeric-error", case, out.brief(), "a result", tags=dict(tags, kind="error"), size=m * 10)
                    continue
                res.compared += V.shape[0]
                obs = np.asarray(out.result)
                bad = np.array([[int(obs[r, c]) != exp[r, c] for c in range(m)] for r in range(V.shape[0])]) if obs.shape == exp.shape else None
                if bad is None or bad.any():
                    res.outcomes["mismatch"] += 1
                    r = int(np.argwhere(bad)[0][0]) if bad is not None else 0
                    res.violate("numeric-int-wrap", dict(case, values=V[r]), dict(got=obs[r] if bad is not None else list(obs.shape), result_dtype=str(obs.dtype)),
                                dict(exact=exp[r]), tags=dict(tags, kind="value"), size=m * 10 + (len(ch) if ch else 0))
                else:
                    res.outcomes["ok"] += 1
    res.sample(dict(leg="cumsum", dtype=dtype, n=n, alphabet=[str(x) for x in int_alphabet(dtype)]))
    return res


def replay(payload):
    from mc.runner import unjson_float

    res = Result()
    c = payload["case"]
    lt = tuple(unjson_float(c["labels"]))
    m = len(lt)
    if c["leg"] == "cumsum":
        run_cumsum(res, dict(dtype=c["dtype"], n=m))
        return res
    shard = dict(leg=c["leg"], func=c["func"], engine=c["engine"], dtype=c["dtype"], alpha=c.get("alpha"))
    if c["leg"] == "inf":
        V = space.value_matrix(A_INF, m, "float64")
    elif c["leg"] == "int":
        V = space.value_matrix(int_alphabet(c["dtype"]), m, c["dtype"])
    elif c["leg"] == "intvar":
        V = space.value_matrix(intvar_alphabet(c["dtype"], c.get("alpha")), m, c["dtype"])
    else:
        V = np.array([unjson_float(c["values"])], dtype="float64") if "values" in c else space.value_matrix((0.0, 1.0, 2.0, 3.0), m, "float64")
    run_point(res, shard, lt, V, chunks=tuple(c["chunks"]) if c.get("chunks") else None, method=c.get("method"), kwextra=c.get("kw"))
    return res
