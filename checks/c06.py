"""C06  position-sensitive reductions respect global positions across chunk boundaries.

E1: all value tuples over {-2,1,NaN}^n (ties and NaNs on both sides of every boundary) x all label tuples
over {0,1,missing}^n x every chunking (composition of n) x method x split_every (every tree depth the
block count allows) x {arg*, first/last family} x float64/int64, plus a 2-D variant whose batch axis is
chunked (the broadcast index of the arg-reduction preprocessing)."""

from __future__ import annotations

import itertools

import numpy as np

from mc import e1, refmodel as rm, space
from mc.runner import Result

PROPERTY = "C06"
LEVEL = "model_checking"
TECHNIQUE = "bounded exhaustive enumeration of tie/NaN placements x chunkings x tree depths against global-position reference"
ENGINE = "E1"
RULE = (
    "state = (reduction, dtype, label tuple over {0,1,NaN}^n, chunking composition, method, split_every, batch blocks, "
    "value tuple over {-2,1,NaN}^n (ints: {-2,0,1})); every state is built as a real dask graph and computed under "
    "dask.config.set(split_every=k). Oracle: index in the WHOLE axis of the first occurrence of the group's extreme "
    "(np.argmax on the member columns mapped to global positions), resp. first/last (non-NaN) member in global order. "
    "Non-trivial = >=2 chunks and some group has members (or ties of its extreme) in >=2 chunks."
)
ASSUMPTIONS = [
    "small scope: n<=4 complete + one stratum of n=5 (quick); n<=5 complete + stratum of n=6 (thorough)",
    "argmax/argmin asserted on NaN-free groups, nanarg* on not-all-NaN groups (C01's scope rule)",
    "first/last have no chunk stage: on dask they are asserted when flox accepts them (blockwise layouts), refusals are recorded",
    "synchronous scheduler; tree shapes through split_every in {2,3,default 4}",
]

FUNCS = ["argmax", "argmin", "nanargmax", "nanargmin", "first", "last", "nanfirst", "nanlast"]
LABELS = (0.0, 1.0, float("nan"))
AF = (-2.0, 1.0, float("nan"))  # negative and zero so that a fill of 0 is not neutral; repeated values give ties
AI = (-2, 0, 1)


def bounds(tier, seed):
    if tier == "quick":
        return dict(n_complete=4, n_stratum=5, strata=16, stratum=seed % 16)
    return dict(n_complete=5, n_stratum=6, strata=8, stratum=seed % 8)


def shards(tier, seed):
    b = bounds(tier, seed)
    out = []
    for func in FUNCS:
        for dtype in ("float64", "int64"):
            for method in (None, "map-reduce", "cohorts", "blockwise"):
                for n in range(2, b["n_complete"] + 1):
                    nparts = {2: 1, 3: 1, 4: 2, 5: 8}[n]
                    for part in range(nparts):
                        out.append(dict(func=func, dtype=dtype, method=method, n=n, part=part, nparts=nparts))
                out.append(dict(func=func, dtype=dtype, method=method, n=b["n_stratum"], part=b["stratum"],
                                nparts=b["strata"] * (2 if b["n_stratum"] == 6 else 1)))
    # many-blocks leg: 9 and 10 size-1 chunks (block ids beyond 8, cohorts spanning many blocks, 2-3 tree levels)
    for func, dtype in (("argmax", "float64"), ("nanargmin", "float64"), ("nanlast", "int64"), ("nanfirst", "float64")):
        for n in (9,) if tier == "quick" else (9, 10, 11):
            nparts = {9: 4, 10: 8, 11: 16}[n]
            for part in range(nparts):
                out.append(dict(func=func, dtype=dtype, method="many", n=n, part=part, nparts=nparts, many=True))
    # sparse-incidence leg: k blocks (block ids >= 8 exist), L labels each living in at most two blocks; the planner merges
    # such cohorts and hands their block sets around in set-iteration order
    for func, dtype in (("argmax", "float64"), ("nanlast", "int64"), ("nanfirst", "float64")):
        for k in (9,) if tier == "quick" else (9, 10, 11):
            nparts = {9: 8, 10: 12, 11: 16}[k]
            for part in range(nparts):
                out.append(dict(func=func, dtype=dtype, method="sparse", n=k, part=part, nparts=nparts, sparse=True))
    out.sort(key=lambda s: -s["n"] if not (s.get("many") or s.get("sparse")) else -100)
    return out


def split_options(nblocks):
    opts = [None]
    if nblocks >= 3:
        opts.append(2)
    if nblocks >= 4:
        opts.append(3)
    return opts


def check_point(res, func, dtype, lab_tuple, chunks, method, split_every, bblocks, V, engine="numpy"):
    import dask
    import dask.array as da

    n = len(lab_tuple)
    labels = np.array(lab_tuple, dtype=float)
    B = V.shape[0]
    bch = (B,) if bblocks == 1 else (B // 2, B - B // 2)
    arr = da.from_array(V, chunks=(bch, chunks))
    kw = dict(func=func, method=method, engine=engine)
    cfg = {} if split_every is None else {"split_every": split_every}
    with dask.config.set(**cfg):
        out = e1.call_reduce(arr, labels, **kw)
    res.evaluations += B
    res.states += B
    res.transitions += 1
    case = dict(func=func, dtype=dtype, labels=list(lab_tuple), chunks=list(chunks), method=method,
                split_every=split_every, batch_blocks=bblocks, engine=engine)
    tags = dict(func=func, dtype=dtype, method=str(method), split_every=str(split_every), nblocks=len(chunks),
                batch_blocks=bblocks)
    size = n * 10 + len(chunks)
    if method == "blockwise":
        codes = np.array([-1 if x != x else int(x) for x in lab_tuple])
        if not e1.blockwise_layout_ok(codes, chunks)[0]:
            res.outcomes["blockwise-precondition-unmet(not asserted)"] += 1
            return
    if out.kind == "refused":
        res.outcomes[f"refused:{out.exc}"] += 1
        return
    if out.kind == "error":
        res.outcomes[f"error:{out.exc}"] += 1
        res.violate("position-error", case, out.brief(), "a computed result or a clean refusal",
                    tags=dict(tags, kind="error", exc=out.exc, where=out.where), size=size)
        return
    mem = rm.members(list(lab_tuple))
    order = sorted(mem)
    res.compared += B
    if not rm.same_labels(out.groups[0], order):
        res.outcomes["wrong-labels"] += 1
        res.violate("position-labels", case, dict(groups=out.groups[0]), dict(groups=order), tags=dict(tags, kind="labels"), size=size)
        return
    exp, scope, present = e1.expected_table(func, V, list(lab_tuple), order)
    bad = e1.compare(out.result, exp, scope, rtol=0)
    if bad is None:
        res.outcomes["ok"] += 1
        return
    res.outcomes["mismatch"] += 1
    if bad[0] == "shape":
        res.violate("position-shape", case, dict(shape=bad[1]), dict(shape=bad[2]), tags=dict(tags, kind="shape"), size=size)
        return
    row, g = bad
    res.violate("position-value", dict(case, values=V[row], group=order[g], member_positions=mem[order[g]]),
                np.asarray(out.result)[bad], exp[bad], tags=dict(tags, kind="value"), size=size)


def spans(lab_tuple, chunks):
    blocks = {}
    for i, lab in enumerate(lab_tuple):
        if lab == lab:
            blocks.setdefault(lab, set()).add(space.block_of(i, chunks))
    return any(len(b) >= 2 for b in blocks.values())


def many_rows(n, dtype):
    rows = [[3] * n, list(range(n)), list(range(n, 0, -1)), [1, 3] * (n // 2) + [1] * (n % 2), [3, 1, 1] * (n // 3) + [3] * (n % 3)]
    if dtype == "float64":
        rows.append([float("nan"), 3.0] * (n // 2) + [3.0] * (n % 2))
    return np.array(rows, dtype=dtype)


def run_many(res, shard):
    func, dtype, n = shard["func"], shard["dtype"], shard["n"]
    V = many_rows(n, dtype)
    lts = [lt for i, lt in enumerate(itertools.product((0.0, 1.0), repeat=n)) if i % shard["nparts"] == shard["part"]]
    ch = (1,) * n
    for lt in lts:
        for method in ("cohorts", None):
            check_point(res, func, dtype, lt, ch, method, None, 1, V)
        check_point(res, func, dtype, lt, ch, "cohorts", 2, 1, V)
        res.nontrivial += 3 * V.shape[0]
        res.classes[f"many-blocks={n}"] += 1
    res.sample(dict(leg="many-blocks", func=func, n=n, labels=list(lts[len(lts) // 2]), rows=V.tolist()[:2]))
    return res


def run_sparse(res, shard):
    func, dtype, k = shard["func"], shard["dtype"], shard["n"]
    choices = [(i,) for i in range(k)] + list(itertools.combinations(range(k), 2))
    combos = [c for i, c in enumerate(itertools.product(choices, repeat=2)) if i % shard["nparts"] == shard["part"]]
    for sets in combos:
        labs, chunks = [], []
        for b in range(k):
            here = [float(lab) for lab, st in enumerate(sets) if b in st] or [float("nan")]
            labs.extend(here)
            chunks.append(len(here))
        n = len(labs)
        rows = [[3] * n, list(range(n)), list(range(n, 0, -1))]
        V = np.array(rows, dtype=dtype)
        for method in ("cohorts", None):
            check_point(res, func, dtype, tuple(labs), tuple(chunks), method, None, 1, V)
        res.nontrivial += 2 * V.shape[0]
        res.classes[f"sparse-incidence-blocks={k}"] += 1
    res.sample(dict(leg="sparse-incidence", func=func, blocks=k, label_block_sets=[list(s) for s in combos[len(combos) // 2]]))
    return res


def run_shard(shard):
    e1.reset_flox_caches()
    res = Result()
    if shard.get("many"):
        return run_many(res, shard)
    if shard.get("sparse"):
        return run_sparse(res, shard)
    func, dtype, method, n = shard["func"], shard["dtype"], shard["method"], shard["n"]
    V = space.value_matrix(AF if dtype == "float64" else AI, n, dtype)
    pairs = [(lt, ch) for lt in itertools.product(LABELS, repeat=n) for ch in space.compositions(n)]
    pairs = [p for i, p in enumerate(pairs) if i % shard["nparts"] == shard["part"]]
    for lt, ch in pairs:
        if all(x != x for x in lt):
            continue
        nontriv = len(ch) >= 2 and spans(lt, ch)
        for se in split_options(len(ch)):
            check_point(res, func, dtype, lt, ch, method, se, 1, V)
            if nontriv:
                res.nontrivial += V.shape[0]
            if se is not None:
                res.classes[f"split_every={se},blocks={len(ch)}"] += 1
        if method == "map-reduce" or (method is None and len(ch) <= 2):
            check_point(res, func, dtype, lt, ch, method, None, 2, V)  # chunked batch axis
        if any(c == 1 for c in ch) and len(ch) >= 2:
            res.classes["size1-block"] += 1
        if len(ch) == 1:
            res.classes["single-chunk"] += 1
        if n == 4 and lt == (0.0, 1.0, 0.0, 0.0) and ch == (1, 2, 1):
            res.sample(dict(func=func, dtype=dtype, method=method, labels=list(lt), chunks=list(ch),
                            split_every=[str(s) for s in split_options(len(ch))], rows=V.shape[0], example_row=V[7]))
    return res


def replay(payload):
    from mc.runner import unjson_float

    res = Result()
    c = payload["case"]
    lt = tuple(unjson_float(c["labels"]))
    V = space.value_matrix(AF if c["dtype"] == "float64" else AI, len(lt), c["dtype"]) if len(lt) <= 7 else many_rows(len(lt), c["dtype"])
    if len(lt) > 7 and len(c["chunks"]) != len(lt):
        n = len(lt)
        V = np.array([[3] * n, list(range(n)), list(range(n, 0, -1))], dtype=c["dtype"])
    check_point(res, c["func"], c["dtype"], lt, tuple(c["chunks"]), c["method"], c["split_every"], c["batch_blocks"], V,
                engine=c.get("engine", "numpy"))
    return res
