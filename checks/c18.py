"""C18  grouped order statistics == NumPy's linear-interpolation quantiles.

E1: all value tuples over {1,-2,0.5,NaN}^n x all label tuples over {0,1,2,missing}^n (unsorted) x
{median, nanmedian, quantile, nanquantile} x q scalar / vector x engines {flox, numpy, None} x
leading batch dims 0-2 x float64/float32/int64; chunked: accepted iff every group lies in one block."""

from __future__ import annotations

import itertools

import numpy as np

from mc import e1, refmodel as rm, space
from mc.runner import Result

PROPERTY = "C18"
LEVEL = "model_checking"
TECHNIQUE = "bounded exhaustive enumeration of group sizes x NaN counts x q against numpy.quantile"
ENGINE = "E1"
RULE = (
    "state = (reduction, q, engine, dtype, batch rank, label tuple over {0,1,2,NaN}^n, value tuple over {1,-2,0.5,NaN}^n "
    "| chunking); transition = one real groupby_reduce call (+compute) with all value tuples as batch rows. Oracle = "
    "np.quantile / np.nanquantile(members, q, method='linear'), a leading axis iff q is a vector, in the given order; "
    "chunked layouts with a straddling group must be refused. Non-trivial = some group has >=2 members, or a NaN member, or is all-NaN."
)
ASSUMPTIONS = [
    "small scope: group sizes 1..n with n<=4 (quick) / 5 + stratum of 6 (thorough); every NaN count",
    "infinities excluded (NumPy's own interpolation is ill-defined there)",
    "engine='numpy' only with scalar q (vector q is refused by flox for that engine)",
]

AV = (1.0, -2.0, 0.5, float("nan"))
AI = (1, -2, 3, 0)
AI8 = (-100, 100, 90, -90)  # int8 members further apart than the dtype can hold: interpolation must not happen in int8
LABELS = (0.0, 1.0, 2.0, float("nan"))
QS = [0.0, 0.25, 1.0 / 3.0, 0.5, 0.75, 1.0, [0.5], [0.0, 1.0], [0.75, 0.25, 0.5]]


def bounds(tier, seed):
    return dict(n=4 if tier == "quick" else 5, chunked_n=4, stratum=None if tier == "quick" else (6, 16, seed % 16))


def shards(tier, seed):
    b = bounds(tier, seed)
    out = []
    for engine in ("flox", None, "numpy"):
        for dtype in ("float64", "float32", "int64"):
            for func in ("median", "nanmedian", "quantile", "nanquantile"):
                if engine == "numpy" and dtype != "float64":
                    continue
                for n in range(1, b["n"] + 1):
                    if tier == "quick" and n == b["n"] and (engine == "numpy" or dtype != "float64"):
                        continue  # the largest n only for the vectorised kernel on float64 in the quick tier
                    nparts = {4: 4, 5: 16, 6: 64}.get(n, 1)
                    for part in range(nparts):
                        out.append(dict(leg="eager", engine=engine, dtype=dtype, func=func, n=n, part=part, nparts=nparts))
                if b["stratum"] and engine != "numpy" and dtype == "float64":
                    n, k, st = b["stratum"]
                    out.append(dict(leg="eager", engine=engine, dtype=dtype, func=func, n=n, part=st, nparts=k))
    for func in ("median", "nanmedian", "quantile", "nanquantile"):
        for n in range(2, b["chunked_n"] + 1):
            if tier == "quick" and n == b["chunked_n"] and func != "nanquantile":
                continue
            for part in range(8 if n >= 4 else 1):
                out.append(dict(leg="chunked", engine=None, dtype="float64", func=func, n=n, part=part, nparts=8 if n >= 4 else 1))
    # narrow integers whose spread exceeds the dtype
    for engine in ("flox", None, "numpy"):
        for func in ("median", "quantile", "nanquantile"):
            for n in (1, 2, 3):
                out.append(dict(leg="eager", engine=engine, dtype="int8", func=func, n=n, part=0, nparts=1))
    # 2-D labels (both axes reduced) with a leading batch axis, with and without expected_groups + fill_value
    for engine in ("flox", None):
        for func in ("quantile", "nanquantile"):
            out.append(dict(leg="nd", engine=engine, dtype="float64", func=func, n=4, part=0, nparts=1))
    out.sort(key=lambda s: (0 if s["engine"] == "numpy" else 1, -s["n"]))
    return out


def run_nd(res, shard):
    """Labels of shape (2, 2) over {0, 1, NaN}, values batched along a leading axis, every q of QS; expected_groups absent or a
    superset with a fill_value (absent labels get the fill; the counts that decide it carry no quantile axis); in memory
    and as one dask block.  The result has shape (len(q),) + (batch,) + (groups,)."""
    import dask.array as da

    func, engine = shard["func"], shard["engine"]
    V = space.value_matrix((1.0, -2.0, float("nan")), 4, "float64")
    B = V.shape[0]
    Vn = V.reshape(B, 2, 2)
    for lt in itertools.product((0.0, 1.0, float("nan")), repeat=4):
        if not any(x == x for x in lt):
            continue
        labels = np.array(lt).reshape(2, 2)
        present = sorted(set(x for x in lt if x == x))
        for q in QS:
            for expected, fill in ((None, None), ([0.0, 1.0, 2.0], -7.0)):
                order = present if expected is None else expected
                exp, scope, pres = e1.expected_table(func, V, list(lt), order, q=q)
                vec = isinstance(q, list)
                if expected is not None:
                    cnt, _, _ = e1.expected_table("count", V, list(lt), order)
                    fillcells = np.broadcast_to(~pres[None, :], cnt.shape)
                    exp = np.where(np.broadcast_to(fillcells, exp.shape), fill, exp)
                    # groups without any valid member: NumPy's value or the fill (flox's fill convention) - not compared here
                    scope = np.broadcast_to(scope, exp.shape) & np.broadcast_to((cnt > 0) | fillcells, exp.shape)
                for chunked in (False, True):
                    kw = dict(func=func, engine=engine, finalize_kwargs=dict(q=q))
                    if expected is not None:
                        kw.update(expected_groups=np.array(expected), fill_value=fill)
                    arr = da.from_array(Vn, chunks=(B, 2, 2)) if chunked else Vn
                    out = e1.call_reduce(arr, labels, **kw)
                    res.evaluations += B
                    res.states += B
                    res.transitions += 1
                    res.nontrivial += B
                    case = dict(leg="nd", func=func, q=q, engine=engine, labels=list(lt), expected=expected, fill=fill, chunked=chunked)
                    tags = dict(leg2="nd", func=func, engine=str(engine), vector_q=vec, nq=len(q) if vec else 0, expected=expected is not None, chunked=chunked)
                    if out.kind != "ok":
                        res.outcomes[f"{out.kind}:{out.exc}"] += 1
                        res.violate("quantile-error", case, out.brief(), "a result", tags=dict(tags, kind=out.kind, exc=out.exc), size=45)
                        continue
                    res.compared += B
                    obs = np.asarray(out.result)
                    want_shape = ((len(q),) if vec else ()) + (B, len(order))
                    if obs.shape != want_shape:
                        res.outcomes["mismatch"] += 1
                        res.violate("quantile-shape", case, dict(shape=list(obs.shape)), dict(shape=list(want_shape)), tags=dict(tags, kind="shape"), size=45)
                        continue
                    bad = e1.compare(obs, exp.reshape(want_shape), np.broadcast_to(scope, want_shape), rtol=1e-12, atol=1e-12)
                    if bad is None:
                        res.outcomes["ok"] += 1
                    else:
                        res.outcomes["mismatch"] += 1
                        res.violate("quantile-value", dict(case, cell=list(bad), values=V[bad[-2]]), obs[bad], exp.reshape(want_shape)[bad], tags=dict(tags, kind="value"), size=45)
    res.sample(dict(leg="nd", func=func, engine=engine, label_shape=[2, 2], q=[str(q) for q in QS], expected_groups=[None, [0.0, 1.0, 2.0]], fill_value=-7.0, rows=B))
    return res


def qlist(func, engine):
    if func in ("median", "nanmedian"):
        return [None]
    # engine='numpy' documents that it cannot compute several quantiles at once; a vector q of length one is asked anyway
    return [q for q in QS if not (engine == "numpy" and isinstance(q, list) and len(q) > 1)]


def check_point(res, func, q, engine, dtype, lab_tuple, V, brank=1, chunks=None, method=None, oned_row=None):
    labels = np.array(lab_tuple, dtype=float)
    n = len(lab_tuple)
    kw = dict(func=func, engine=engine)
    fk = {}
    if q is not None:
        fk = dict(q=q)
        kw["finalize_kwargs"] = fk
    B = V.shape[0]
    if oned_row is not None:
        arr = V[oned_row]
        Vc = V[oned_row:oned_row + 1]
    elif brank == 2:
        b1 = 4 if B % 4 == 0 else 1
        arr = V.reshape(b1, B // b1, n)
        Vc = V
    else:
        arr = V
        Vc = V
    if chunks is not None:
        import dask.array as da

        arr = da.from_array(arr, chunks=(arr.shape[0], chunks))
        kw["method"] = method
    out = e1.call_reduce(arr, labels, **kw)
    rows = Vc.shape[0]
    res.evaluations += rows
    res.states += rows
    res.transitions += 1
    case = dict(func=func, q=q, engine=engine, dtype=dtype, labels=list(lab_tuple), batch_rank=brank, oned_row=oned_row,
                chunks=list(chunks) if chunks else None, method=method)
    tags = dict(func=func, engine=str(engine), dtype=dtype, vector_q=isinstance(q, list), chunked=chunks is not None,
                method=str(method), batch_rank=brank if oned_row is None else 0)
    size = n * 10 + (len(chunks) if chunks else 0)
    mem = rm.members(list(lab_tuple))
    order = sorted(mem)
    straddle = False
    if chunks is not None:
        straddle = any(len({space.block_of(i, chunks) for i in pos}) > 1 for pos in mem.values())
    repaired = False
    if chunks is not None and straddle and method == "blockwise":
        repaired = e1.blockwise_layout_ok(np.array([-1 if x != x else int(x) for x in lab_tuple]), chunks)[0]
        if not repaired:
            # outside blockwise's documented precondition (even after the automatic rechunk)
            res.outcomes["blockwise-precondition-unmet(not asserted)"] += 1
            return
    if out.kind == "refused":
        res.outcomes[f"refused:{out.exc}"] += 1
        if out.origin != "flox":
            # not a refusal by flox but a failure inside numpy / numpy_groupies / dask that happens to be a ValueError
            res.violate("quantile-error", case, out.brief(), "a result or a refusal by flox itself", tags=dict(tags, kind="foreign-error", exc=out.exc), size=size)
        elif chunks is None and engine in ("flox", None):
            res.violate("quantile-refused", case, out.brief(), "engine flox/None computes order statistics",
                        tags=dict(tags, kind="refused"), size=size)
        elif chunks is not None and not straddle and method in (None, "blockwise"):
            res.violate("quantile-refused", case, out.brief(), "accepted: every group lies within one block",
                        tags=dict(tags, kind="refused-blockwise-layout"), size=size)
        return
    if out.kind == "error":
        res.outcomes[f"error:{out.exc}"] += 1
        res.violate("quantile-error", case, out.brief(), "a result or a clean refusal", tags=dict(tags, kind="error", exc=out.exc), size=size)
        return
    if chunks is not None and straddle and not repaired:
        res.outcomes["accepted-straddling"] += 1
        res.violate("quantile-not-refused", case, dict(result=out.result), "refusal: a group straddles blocks",
                    tags=dict(tags, kind="not-refused"), size=size)
        return
    res.compared += rows
    if not rm.same_labels(out.groups[0], order):
        res.violate("quantile-labels", case, dict(groups=out.groups[0]), dict(groups=order), tags=dict(tags, kind="labels"), size=size)
        return
    exp, scope, present = e1.expected_table(func, Vc, list(lab_tuple), order, **fk)
    obs = np.asarray(out.result)
    vec = isinstance(q, list)
    want_shape = ((len(q),) if vec else ()) + ((rows,) if oned_row is None else ()) + (len(order),)
    if oned_row is not None:
        exp = exp.reshape(want_shape)
        scope_b = np.broadcast_to(scope.reshape(scope.shape[-1:]), want_shape)
    else:
        scope_b = np.broadcast_to(scope, exp.shape)
    if brank == 2 and oned_row is None:
        lead = (len(q),) if vec else ()
        if obs.shape != lead + arr.shape[:-1] + (len(order),):
            res.violate("quantile-shape", case, dict(shape=list(obs.shape)), dict(shape=list(lead + arr.shape[:-1] + (len(order),))),
                        tags=dict(tags, kind="shape"), size=size)
            return
        obs = obs.reshape(lead + (rows, len(order)))
    rtol = 2e-6 if dtype == "float32" else 1e-12
    bad = e1.compare(obs, exp, scope_b, rtol=rtol, atol=1e-12)
    if bad is None:
        res.outcomes["ok"] += 1
        return
    res.outcomes["mismatch"] += 1
    if bad[0] == "shape":
        res.violate("quantile-shape", case, dict(shape=bad[1]), dict(shape=bad[2]), tags=dict(tags, kind="shape"), size=size)
        return
    g = bad[-1]
    row = bad[-2] if oned_row is None else oned_row
    vals = np.asarray(V[row])[mem[order[g]]]
    nul = rm.isnull(vals)
    res.violate("quantile-value", dict(case, values=V[row], group=order[g], members=vals), obs[bad], exp[bad],
                tags=dict(tags, kind="value", group_all_nan=bool(nul.all()), group_has_nan=bool(nul.any()), group_size=len(vals)),
                size=size)


def run_shard(shard):
    e1.reset_flox_caches()
    res = Result()
    if shard["leg"] == "nd":
        return run_nd(res, shard)
    func, engine, dtype, n = shard["func"], shard["engine"], shard["dtype"], shard["n"]
    alphabet = AI if dtype == "int64" else (AI8 if dtype == "int8" else AV)
    if engine == "numpy" and n >= 4:
        alphabet = alphabet[:3] if dtype == "int64" else (1.0, -2.0, float("nan"))  # per-group Python loop: smaller alphabet
    V = space.value_matrix(alphabet, n, dtype)
    lts = list(itertools.product(LABELS, repeat=n))
    lts = [lt for i, lt in enumerate(lts) if i % shard["nparts"] == shard["part"] and any(x == x for x in lt)]
    if shard["leg"] == "eager":
        for lt in lts:
            for q in qlist(func, engine):
                check_point(res, func, q, engine, dtype, lt, V)
                res.nontrivial += V.shape[0]
            if n <= 3:
                for q in qlist(func, engine)[:1] + qlist(func, engine)[-1:]:
                    check_point(res, func, q, engine, dtype, lt, V, brank=2)
                    if n <= 2:
                        for r in range(V.shape[0]):
                            check_point(res, func, q, engine, dtype, lt, V, oned_row=r)
        res.sample(dict(func=func, engine=engine, dtype=dtype, labels=list(lts[len(lts) // 2]), q=[str(q) for q in qlist(func, engine)], rows=V.shape[0]))
    else:
        for lt in lts:
            for ch in space.compositions(n):
                if len(ch) < 2:
                    continue
                for method in (None, "blockwise", "map-reduce", "cohorts"):
                    for q in qlist(func, engine)[:1] + qlist(func, engine)[-1:]:
                        check_point(res, func, q, engine, dtype, lt, V, chunks=ch, method=method)
                        res.nontrivial += V.shape[0]
        res.sample(dict(leg="chunked", func=func, labels=list(lts[len(lts) // 2]), chunkings=len(space.compositions(n)) - 1))
    return res


def replay(payload):
    from mc.runner import unjson_float

    res = Result()
    c = payload["case"]
    if c.get("leg") == "nd":
        return run_nd(res, dict(func=c["func"], engine=c["engine"]))
    lt = tuple(unjson_float(c["labels"]))
    alphabet = AI if c["dtype"] == "int64" else (AI8 if c["dtype"] == "int8" else AV)
    V = space.value_matrix(alphabet, len(lt), c["dtype"])
    check_point(res, c["func"], c["q"], c["engine"], c["dtype"], lt, V, brank=c.get("batch_rank", 1),
                chunks=tuple(c["chunks"]) if c.get("chunks") else None, method=c.get("method"), oned_row=c.get("oned_row"))
    return res
