"""C03  result independent of reduction-tree shape, task order and scheduler.

Leg 1 (tree shape, E1): every block count k x every split_every 2..k (all tree depths) x strategies x reductions by
        combine kind x every label tuple over {0,1}^k (one or two elements per block), scans for every k; computed and
        compared with the eager result, plus a structural invariant on the unexecuted graph: every block of the
        blockwise stage is reachable from the final key of its cohort/tree.
Leg 2 (task order, E3): BFS over all order ideals of real flox graphs = all topological execution orders; each
        transition executes the real task; outputs must equal the first output of that task, inputs must be untouched;
        the store at the top ideal must equal the synchronous scheduler's result and the eager result.
Leg 3 (threads, E4): preemption-bounded line-level interleavings of two tasks sharing an input (mc/ilv.py).
A free-running scheduler='threads' pass is a smoke test only and decides nothing."""

from __future__ import annotations

import collections
import itertools

import numpy as np

from mc import e1, graphcfg, graphx, refmodel as rm, space
from mc.runner import Result

PROPERTY = "C03"
LEVEL = "model_checking"
TECHNIQUE = "explicit-state model checking of the implementation: all tree shapes, BFS over all order ideals of real task graphs, preemption-bounded two-thread interleavings"
ENGINE = "E3"
RULE = (
    "leg 1: state = (reduction, method, k blocks, split_every in 2..k, label tuple {0,1}^k); transition = real graph build + "
    "compute under dask.config.set(split_every=s); oracle = eager result (identical for every s). leg 2: state = order "
    "ideal of a real flox task graph, transition = execute one ready task; all ideals visited (= all topological orders); "
    "oracle = first output of each task / sync-scheduler result / eager result. leg 3: schedules of two real tasks sharing "
    "an input, every flox source line a switch point, preemption bound 1 (quick) / 2 (thorough). Non-trivial = tree of "
    "depth >= 2 (k > split_every) or a graph with >= 2 ready tasks in some ideal."
)
ASSUMPTIONS = [
    "k <= 6 blocks (quick) / 9 (thorough) for tree shapes; k <= 5 / 6 for the ideal lattice; a cap on ideals is reported if hit",
    "two concurrently running tasks, switch points at flox source lines only (C code of NumPy/pandas is atomic here)",
    "the threaded scheduler run is a smoke test; distributed schedulers are not installed",
]

TREE_FUNCS = [
    ("sum", "float64"), ("nanmax", "float64"), ("var", "float64"), ("nanfirst", "float64"), ("argmax", "float64"),
    ("nanargmin", "float64"), ("nanlast", "int64"), ("count", "float64"), ("nanprod", "float64"),
]  # fmt: skip


def bounds(tier, seed):
    if tier == "quick":
        return dict(K=6, lattice_k=[3, 4, 5], max_states=60000, preemptions=1)
    return dict(K=8, lattice_k=[3, 4, 5, 6], max_states=600000, preemptions=2)


def shards(tier, seed):
    b = bounds(tier, seed)
    out = []
    for func, dtype in TREE_FUNCS:
        for method in ("map-reduce", "cohorts"):
            for k in range(2, b["K"] + 1):
                nparts = 1 if k <= 6 else 4
                for part in range(nparts):
                    out.append(dict(leg="tree", func=func, dtype=dtype, method=method, k=k, part=part, nparts=nparts))
    for func in ("nancumsum", "ffill", "bfill"):
        for k in range(2, b["K"] + 2):
            out.append(dict(leg="scan-tree", func=func, k=k))
    # blocks that hold the same groups in different orders of appearance, intermediates reindexed at combine time, sort=False
    for func in ("sum", "nanmax", "nanargmax"):
        for k in range(2, (4 if tier == "quick" else 5) + 1):
            nparts = {2: 1, 3: 1, 4: 2, 5: 8}[k]
            for part in range(nparts):
                out.append(dict(leg="tree-unsorted", func=func, k=k, part=part, nparts=nparts))
    bb2 = 3 if tier == "quick" else 4
    cfgs = graphcfg.reduce_cfgs(b["lattice_k"], bb2_max_k=bb2) + graphcfg.scan_cfgs(b["lattice_k"], bb2_max_k=0 if tier == "quick" else 3)
    cfgs = cfgs + graphcfg.wide_cfgs(tier)
    for c in cfgs:
        out.append(dict(leg="order", cfg=c, max_states=b["max_states"]))
    from mc import ilv

    for s in ilv.shards(tier, b["preemptions"]):
        out.append(dict(leg="threads", **s))
    out.sort(key=lambda s: 0 if s["leg"] == "threads" else (1 if s["leg"] == "order" else 2))
    return out


# ----------------------------------------------------------------------------------------------- leg 1


def tree_structure_ok(result):
    """Every blockwise-stage key is reachable from some output key (no block silently left out of the tree)."""
    from dask.core import get_dependencies

    graph = dict(result.__dask_graph__())
    chunk_keys = {k for k in graph if isinstance(k, tuple) and isinstance(k[0], str) and "-chunk-" in k[0]}
    if not chunk_keys:
        return True, 0
    seen, stack = set(), list(itertools.chain.from_iterable(result.__dask_keys__())) if result.ndim > 1 else list(result.__dask_keys__())
    stack = [k for k in _flatten(result.__dask_keys__())]
    while stack:
        k = stack.pop()
        if k in seen:
            continue
        seen.add(k)
        try:
            stack.extend(get_dependencies(graph, k))
        except Exception:
            pass
    return chunk_keys <= seen, len(chunk_keys - seen)


def _flatten(x):
    if isinstance(x, list):
        for y in x:
            yield from _flatten(y)
    else:
        yield x


def tree_point(res, func, dtype, method, lab_tuple, per_block, split_every):
    import dask
    import dask.array as da

    k = len(lab_tuple)
    labels = np.repeat(np.array(lab_tuple, dtype=float), per_block)
    n = len(labels)
    V = graphcfg.values_for(dtype, n, 3)
    arr = da.from_array(V, chunks=((3,), (per_block,) * k))
    case = dict(func=func, dtype=dtype, method=method, labels=list(lab_tuple), per_block=per_block, split_every=split_every)
    tags = dict(func=func, method=method, k=k, split_every=split_every, leg2="tree")
    size = k * 10 + split_every
    with dask.config.set(split_every=split_every):
        out = e1.call_reduce(arr, labels, func=func, method=method, engine="numpy", compute=False)
        res.evaluations += 1
        res.states += 1
        res.transitions += 1
        if out.kind == "refused":
            res.outcomes[f"refused:{out.exc}"] += 1
            return
        if out.kind == "error":
            res.outcomes[f"error:{out.exc}"] += 1
            res.violate("tree-error", case, out.brief(), "a graph", tags=dict(tags, kind="error", exc=out.exc), size=size)
            return
        ok, nlost = tree_structure_ok(out.result)
        if not ok:
            res.violate("tree-structure", case, dict(unreachable_block_tasks=nlost), "every block feeds the tree", tags=dict(tags, kind="structure"), size=size)
            return
        try:
            with np.errstate(all="ignore"):
                val = np.asarray(out.result.compute(scheduler="sync"))
        except Exception as e:
            res.outcomes[f"error:{type(e).__name__}"] += 1
            res.violate("tree-error", case, dict(exc=type(e).__name__, msg=str(e)[:200], where="compute"), "a result",
                        tags=dict(tags, kind="error", exc=type(e).__name__), size=size)
            return
    eager = e1.call_reduce(V, labels, func=func, engine="numpy")
    res.compared += 1
    order = sorted(set(lab_tuple))
    exp, scope, present = e1.expected_table(func, V, labels.tolist(), order)
    bad = e1.compare(val, np.asarray(eager.result), ~(present[None, :] & ~scope), rtol=1e-12)
    if bad is None:
        bad = e1.compare(val, exp, scope, rtol=1e-9)
    if bad is None:
        res.outcomes["ok"] += 1
    else:
        res.outcomes["mismatch"] += 1
        res.violate("tree-value", case, dict(chunked=val), dict(eager=eager.result), tags=dict(tags, kind="value"), size=size)


def unsorted_tree_point(res, func, block_labels, split_every, method, reindex):
    """Two elements per block; the label -> value mapping must not depend on split_every (labels come back in an unspecified
    order with sort=False, so the mapping is compared)."""
    import dask
    import dask.array as da

    k = len(block_labels)
    labels = np.array([x for bl in block_labels for x in bl], dtype=float)
    V = graphcfg.values_for("float64", 2 * k, 3)
    arr = da.from_array(V, chunks=((3,), (2,) * k))
    case = dict(leg="tree-unsorted", func=func, block_labels=[list(b) for b in block_labels], split_every=split_every, method=method, reindex=reindex)
    tags = dict(func=func, method=method, k=k, split_every=split_every, leg2="tree-unsorted", reindex=str(reindex))
    size = k * 10 + split_every
    with dask.config.set(split_every=split_every):
        out = e1.call_reduce(arr, labels, func=func, method=method, engine="numpy", sort=False, reindex=reindex)
    res.evaluations += 1
    res.states += 1
    res.transitions += 1
    if out.kind == "refused":
        res.outcomes[f"refused:{out.exc}"] += 1
        return
    if out.kind == "error":
        res.outcomes[f"error:{out.exc}"] += 1
        res.violate("tree-error", case, out.brief(), "a result", tags=dict(tags, kind="error", exc=out.exc), size=size)
        return
    eager = e1.call_reduce(V, labels, func=func, engine="numpy")
    res.compared += 1
    want = {float(g): np.asarray(eager.result)[:, j] for j, g in enumerate(np.asarray(eager.groups[0]).tolist())}
    got_labels = [float(g) for g in np.asarray(out.groups[0]).tolist()]
    val = np.asarray(out.result)
    okay = sorted(got_labels) == sorted(want) and val.shape == (3, len(got_labels))
    if okay:
        order = sorted(want)
        _, scope, _ = e1.expected_table(func, V, labels.tolist(), order)  # e.g. nanarg* of an all-NaN group is undefined: not compared
        for j, g in enumerate(got_labels):
            sc = np.broadcast_to(scope, (3, len(order)))[:, order.index(g)]
            if (rm.mismatch(val[:, j].astype(float), want[g].astype(float), rtol=1e-12) & sc).any():
                okay = False
    if okay:
        res.outcomes["ok"] += 1
    else:
        res.outcomes["mismatch"] += 1
        res.violate("tree-value", case, dict(labels=got_labels, chunked=val), dict(labels=sorted(want), eager=eager.result), tags=dict(tags, kind="value"), size=size)


def scan_tree_point(res, func, lab_tuple, k):
    import dask.array as da

    n = len(lab_tuple)
    labels = np.array(lab_tuple, dtype=float)
    V = graphcfg.values_for("float64", n, 3)
    chunks = (1,) * (k - 1) + (n - (k - 1),)
    arr = da.from_array(V, chunks=((3,), chunks))
    out = e1.call_scan(arr, labels, func=func)
    eager = e1.call_scan(V, labels, func=func)
    res.evaluations += 1
    res.states += 1
    res.transitions += 2
    case = dict(func=func, labels=list(lab_tuple), chunks=list(chunks))
    tags = dict(func=func, k=k, leg2="scan-tree")
    if out.kind != "ok" or eager.kind != "ok":
        if "error" in (out.kind, eager.kind):
            res.violate("scan-tree-error", case, dict(chunked=out.brief(), eager=eager.brief()), "results", tags=dict(tags, kind="error"), size=k * 10)
        res.outcomes[f"{out.kind}/{eager.kind}"] += 1
        return
    res.compared += 1
    mask = np.array([x == x for x in lab_tuple])
    bad = e1.compare(out.result, eager.result, np.broadcast_to(mask[None, :], V.shape), rtol=1e-12)
    if bad is None:
        res.outcomes["ok"] += 1
    else:
        res.outcomes["mismatch"] += 1
        res.violate("scan-tree-value", case, dict(chunked=np.asarray(out.result)[bad[0]]), dict(eager=np.asarray(eager.result)[bad[0]]),
                    tags=dict(tags, kind="value"), size=k * 10)


# ----------------------------------------------------------------------------------------------- leg 2


def _num(x):
    """float view of a result (datetime/timedelta results through their integer representation, NaT -> NaN)"""
    x = np.asarray(x)
    if x.dtype.kind in "mM":
        return np.where(np.isnat(x), np.nan, x.view("int64").astype(float))
    return x.astype(float)


def order_cfg(res, cfg, max_states):
    import dask

    tags = dict(leg2="order", kind2=cfg["kind"], func=cfg["func"], method=str(cfg.get("method")), fill=str(cfg.get("fill_value")))
    size = len(cfg["chunks"]) * 10
    try:
        colls, user, eager = graphcfg.build(cfg)
    except e1.REFUSALS as e:
        res.outcomes[f"refused:{type(e).__name__}"] += 1
        return
    g = graphx.TaskGraph(colls)
    try:
        r = graphx.explore_orders(g, max_states=max_states, reexec=False)
    except graphx.Finding as f:
        res.outcomes[f.kind] += 1
        res.violate("order-" + f.kind, dict(cfg=cfg, task=str(f.task)), f.detail, "same output in every execution order",
                    tags=dict(tags, kind=f.kind), size=size)
        return
    except Exception as e:
        res.violate("order-error", cfg, dict(exc=type(e).__name__, msg=str(e)[:300]), "tasks execute", tags=dict(tags, kind="error"), size=size)
        return
    res.states += r["states"]
    res.transitions += r["transitions"]
    res.evaluations += r["transitions"]
    res.compared += r["transitions"]
    res.extra["linear_extensions_represented"] += r["linear_extensions"]
    if r["capped"]:
        res.caps.append(f"ideal cap {max_states} hit for {cfg['func']}/{cfg.get('method')} k={len(cfg['chunks'])}")
        return
    # top ideal == synchronous scheduler == threaded scheduler (smoke) == eager
    sync = dask.compute(*colls, scheduler="sync")
    first = colls[0]
    keys = list(_flatten(first.__dask_keys__()))
    blocks = {k: r["store"][k] for k in keys}
    try:
        assembled = _assemble(first, blocks)
    except Exception:
        assembled = None
    if assembled is not None:
        bad = rm.mismatch(_num(assembled), _num(sync[0]), rtol=0)
        if bad.any():
            res.violate("order-vs-sync", cfg, dict(lattice=assembled), dict(sync=sync[0]), tags=dict(tags, kind="value"), size=size)
            return
    thr = dask.compute(*colls, scheduler="threads", num_workers=4)
    res.extra["threaded_smoke_runs"] += 1
    if rm.mismatch(_num(thr[0]), _num(sync[0]), rtol=0).any():
        res.violate("order-threads-smoke", cfg, dict(threads=thr[0]), dict(sync=sync[0]), tags=dict(tags, kind="threads"), size=size)
        return
    if cfg.get("wide"):
        # breadth configs: the synchronous result is also compared with the eager call on the same data
        try:
            ref = eager()
        except Exception:
            ref = None
        if ref is not None:
            a, b_ = _num(sync[0]), _num(ref)
            if a.shape != b_.shape or rm.mismatch(a, b_, rtol=1e-9).any():
                res.violate("order-vs-eager", cfg, dict(sync=sync[0]), dict(eager=ref), tags=dict(tags, kind="eager"), size=size)
                return
    if r["states"] > r["ntasks"] + 1:
        res.nontrivial += 1
    res.outcomes["ok"] += 1
    res.sample(dict(cfg=cfg, tasks=r["ntasks"], ideals=r["states"], executions=r["transitions"], linear_extensions=str(r["linear_extensions"])))


def _assemble(arr, blocks):
    """Concatenate the computed blocks of a dask array in block order."""
    keys = arr.__dask_keys__()

    def rec(ks, axis):
        if isinstance(ks, list):
            parts = [rec(x, axis + 1) for x in ks]
            return np.concatenate(parts, axis=axis)
        return np.asarray(blocks[ks])

    return rec(keys, 0)


def run_shard(shard):
    e1.reset_flox_caches()
    res = Result()
    leg = shard["leg"]
    if leg == "tree":
        k = shard["k"]
        lts = list(itertools.product((0.0, 1.0), repeat=k))
        lts = [lt for i, lt in enumerate(lts) if i % shard["nparts"] == shard["part"]]
        for lt in lts:
            for se in range(2, k + 1):
                for per_block in (1, 2) if k <= 4 else (1,):
                    tree_point(res, shard["func"], shard["dtype"], shard["method"], lt, per_block, se)
                    if k > se:
                        res.nontrivial += 1
        res.sample(dict(leg="tree", func=shard["func"], method=shard["method"], k=k, split_every=list(range(2, k + 1)), labels=list(lts[len(lts) // 2])))
    elif leg == "tree-unsorted":
        k = shard["k"]
        bls = list(itertools.product(((0.0, 1.0), (1.0, 0.0), (0.0, 0.0), (1.0, 1.0)), repeat=k))
        bls = [b for i, b in enumerate(bls) if i % shard["nparts"] == shard["part"]]
        for bl in bls:
            for se in range(2, k + 1):
                for method, reindex in (("map-reduce", False), ("map-reduce", None), ("cohorts", None)):
                    unsorted_tree_point(res, shard["func"], bl, se, method, reindex)
                    if len(set(bl)) > 1:
                        res.nontrivial += 1
        res.sample(dict(leg="tree-unsorted", func=shard["func"], k=k, split_every=list(range(2, k + 1)), block_labels=[list(b) for b in bls[len(bls) // 2]]))
    elif leg == "scan-tree":
        k = shard["k"]
        n = k + 1
        alphabet = (0.0, 1.0, float("nan")) if (shard["func"] != "nancumsum" and k <= 4) else (0.0, 1.0)
        for lt in itertools.product(alphabet, repeat=n):
            if all(x != x for x in lt):
                continue
            scan_tree_point(res, shard["func"], lt, k)
            res.nontrivial += 1 if k >= 3 else 0
        res.sample(dict(leg="scan-tree", func=shard["func"], blocks=k))
    elif leg == "order":
        order_cfg(res, shard["cfg"], shard["max_states"])
    elif leg == "threads":
        from mc import ilv

        ilv.run(res, shard)
    return res


def replay(payload):
    from mc.runner import unjson_float

    res = Result()
    c = payload["case"]
    leg = payload["leg"]
    if c.get("leg") == "tree-unsorted":
        unsorted_tree_point(res, c["func"], tuple(tuple(b) for b in c["block_labels"]), c["split_every"], c["method"], c["reindex"])
    elif leg.startswith("tree"):
        tree_point(res, c["func"], c["dtype"], c["method"], tuple(unjson_float(c["labels"])), c["per_block"], c["split_every"])
    elif leg.startswith("scan-tree"):
        scan_tree_point(res, c["func"], tuple(unjson_float(c["labels"])), len(c["chunks"]))
    elif leg.startswith("order"):
        cfg = c.get("cfg", c)
        cfg = dict(cfg, labels=unjson_float(cfg["labels"]))
        order_cfg(res, cfg, 600000)
    else:
        from mc import ilv

        ilv.replay(res, c)
    return res
