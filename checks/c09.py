"""C09  cohort planner soundness + every member counted exactly once in every graph.

E6: (1) planner leg - find_group_cohorts on every small code array x chunk layout x merge x
expected_groups, and on every label-by-block incidence matrix up to k blocks x L labels (realised as a
label array); invariants on the returned cohorts.  (2) graph leg - groupby_reduce(func='sum') on
provenance data (element i carries 2**i, two batch slices with disjoint bit ranges) for every method:
dependency closure of every output chunk in the unexecuted graph, then the decoded sums."""

from __future__ import annotations

import itertools

import numpy as np

from mc import e1, space
from mc.runner import Result

PROPERTY = "C09"
LEVEL = "model_checking"
TECHNIQUE = "explicit-state exploration of planner inputs (all small code arrays, all incidence matrices) with invariants, plus graph reachability (dependency closures) and provenance decoding"
ENGINE = "E6"
RULE = (
    "planner leg: state = (code array over {-1,0,1,2,3}, chunk layout, merge, expected_groups) for all 1-D arrays up to n and "
    "2-D arrays up to 2x3/3x2 with all chunk grids, plus all incidence matrices (label x block) up to k blocks and L labels; "
    "transition = one real find_group_cohorts call; invariants: labels partitioned, block set of a cohort covers every block "
    "holding one of its labels, 'blockwise' only if every label sits in one block. graph leg: state = (labels, chunks, method); "
    "transition = real graph build (closure of every output key inspected unexecuted) + compute on provenance data; "
    "oracle: each group's sum == sum of 2**i over exactly its members. Non-trivial = >=2 blocks and some label in >=2 blocks."
)
ASSUMPTIONS = [
    "exhaustive only up to the stated bounds (n, k blocks, L labels); nothing is sampled beyond them",
    "find_group_cohorts is called with factorized integer codes (-1 = missing), as groupby_reduce does",
    "the closure check assumes dask.array.from_array names input blocks (name, i, j); if the graph does not expose them the decode still decides",
    "synchronous scheduler",
]


def bounds(tier, seed):
    if tier == "quick":
        return dict(planner_n=4, planner_stratum=(5, 8, seed % 8), planner_2d=["2x2", "2x3s"], inc=[(5, 2), (4, 3), (6, 2)],
                    graph_n3=4, graph_n2=5, graph_stratum=(6, 4, seed % 4), graph_n2_nomissing=7,
                    graph_inc=[(5, 2), (4, 3), (6, 2)], graph_2d=["2x2", "2x3"])
    return dict(planner_n=6, planner_stratum=None, planner_2d=["2x2", "2x3", "3x2", "3x3s"], inc=[(5, 3), (6, 2), (7, 2), (8, 2), (6, 3)],
                graph_n3=5, graph_n2=7, graph_stratum=None, graph_n2_nomissing=8, graph_inc=[(5, 3), (6, 2), (7, 2)],
                graph_2d=["2x2", "2x3", "3x2"])


def shards(tier, seed):
    b = bounds(tier, seed)
    out = []
    for n in range(1, b["planner_n"] + 1):
        nparts = {1: 1, 2: 1, 3: 1, 4: 2, 5: 8, 6: 40}[n]
        for part in range(nparts):
            out.append(dict(leg="planner-1d", n=n, part=part, nparts=nparts))
    if b["planner_stratum"]:
        n, k, st = b["planner_stratum"]
        for sub in range(2):
            out.append(dict(leg="planner-1d", n=n, part=st * 2 + sub, nparts=k * 2))
    for shape in b["planner_2d"]:
        nparts = {"2x2": 1, "2x3": 8, "2x3s": 2, "3x2": 8, "3x3s": 16}[shape]
        for part in range(nparts):
            out.append(dict(leg="planner-2d", shape=shape, part=part, nparts=nparts))
    for k, L in b["inc"]:
        total = (2**k - 1) ** L
        nparts = max(1, total // 1000)
        for part in range(nparts):
            out.append(dict(leg="planner-inc", k=k, L=L, part=part, nparts=nparts))
    for n in range(2, b["graph_n3"] + 1):
        nparts = {2: 1, 3: 1, 4: 4, 5: 16}[n]
        for part in range(nparts):
            out.append(dict(leg="graph-1d", n=n, alphabet=[0, 1, 2, -1], part=part, nparts=nparts))
    for n in range(b["graph_n3"] + 1, b["graph_n2"] + 1):
        nparts = {5: 8, 6: 32, 7: 96}[n]
        for part in range(nparts):
            out.append(dict(leg="graph-1d", n=n, alphabet=[0, 1, -1], part=part, nparts=nparts))
    if b["graph_stratum"]:
        n, k, st = b["graph_stratum"]
        for sub in range(8):
            out.append(dict(leg="graph-1d", n=n, alphabet=[0, 1, -1], part=st * 8 + sub, nparts=k * 8))
    for n in range(max(b["graph_n2"], (b["graph_stratum"] or (0,))[0]) + 1, b["graph_n2_nomissing"] + 1):
        nparts = {7: 16, 8: 64}[n]
        for part in range(nparts):
            out.append(dict(leg="graph-1d", n=n, alphabet=[0, 1], part=part, nparts=nparts, methods=[None, "cohorts"]))
    for k, L in b["graph_inc"]:
        total = (2**k - 1) ** L
        nparts = max(1, total // 150)
        for part in range(nparts):
            out.append(dict(leg="graph-inc", k=k, L=L, part=part, nparts=nparts))
    for shape in b["graph_2d"]:
        nparts = {"2x2": 1, "2x3": 8, "3x2": 8}[shape]
        for part in range(nparts):
            out.append(dict(leg="graph-2d", shape=shape, part=part, nparts=nparts))
    return out


# ---------------------------------------------------------------------------------- reference


def blocks_of_labels(codes, chunks):
    """label -> set of flat block indices (C order) holding it; codes is an nd int array."""
    codes = np.asarray(codes)
    nblocks = tuple(len(c) for c in chunks)
    bounds_ = [space.chunk_bounds(c) for c in chunks]
    out = {}
    for bidx in itertools.product(*[range(nb) for nb in nblocks]):
        sl = tuple(slice(bounds_[ax][i], bounds_[ax][i + 1]) for ax, i in enumerate(bidx))
        flat = int(np.ravel_multi_index(bidx, nblocks))
        for lab in np.unique(codes[sl]):
            if lab >= 0:
                out.setdefault(int(lab), set()).add(flat)
    return out


def check_planner(res, codes, chunks, merge, expected, legname):
    from flox.core import find_group_cohorts
    import pandas as pd

    codes = np.asarray(codes)
    exp_idx = None if expected is None else pd.RangeIndex(expected)
    res.evaluations += 1
    res.states += 1
    res.transitions += 1
    case = dict(codes=codes.tolist(), chunks=[list(c) for c in chunks], merge=merge, expected_size=expected)
    tags = dict(leg2=legname, merge=merge, expected=expected is not None)
    size = codes.size * 10 + sum(len(c) for c in chunks)
    try:
        method, cohorts = find_group_cohorts(codes, chunks, expected_groups=exp_idx, merge=merge)
        cohorts = dict(cohorts)
    except Exception as e:
        res.outcomes[f"error:{type(e).__name__}"] += 1
        res.violate("planner-error", case, dict(exc=type(e).__name__, msg=str(e)[:200]), "a plan", tags=dict(tags, kind="error", exc=type(e).__name__), size=size)
        return
    res.compared += 1
    ref = blocks_of_labels(codes, chunks)
    present = set(ref)
    nblocks_total = int(np.prod([len(c) for c in chunks]))
    res.outcomes[f"plan:{method}"] += 1
    problems = []
    if method not in ("blockwise", "cohorts", "map-reduce"):
        problems.append(f"unknown method {method!r}")
    seen = {}
    for blks, labs in cohorts.items():
        blks = tuple(int(b) for b in blks)
        for lab in labs:
            lab = int(lab)
            if lab in seen:
                problems.append(f"label {lab} in two cohorts")
            seen[lab] = blks
            need = ref.get(lab, set())
            if not need <= set(blks):
                problems.append(f"cohort {list(blks)} of label {lab} misses blocks {sorted(need - set(blks))}")
        if any(b < 0 or b >= nblocks_total for b in blks):
            problems.append(f"cohort block index out of range: {blks}")
    if cohorts:
        lost = present - set(seen)
        if lost:
            problems.append(f"present labels in no cohort: {sorted(lost)}")
    elif present and not (method == "map-reduce"):
        problems.append(f"no cohorts returned with method {method!r} although labels are present")
    if method == "blockwise" and any(len(b) > 1 for b in ref.values()):
        problems.append("blockwise proposed although a label spans blocks")
    if problems:
        res.violate("planner-invariant", case, dict(method=method, cohorts={str(k): v for k, v in cohorts.items()}), problems,
                    tags=dict(tags, kind="invariant"), size=size)


# ---------------------------------------------------------------------------------- graph leg


def closure_inputs(graph, key, input_name):
    """Input block keys (input_name, i, j, ...) reachable from `key` in a materialised graph dict."""
    from dask.core import get_dependencies

    seen, stack, found = set(), [key], set()
    while stack:
        k = stack.pop()
        if k in seen:
            continue
        seen.add(k)
        if isinstance(k, tuple) and k and k[0] == input_name:
            found.add(k)
            continue
        try:
            deps = get_dependencies(graph, k)
        except Exception:
            deps = ()
        stack.extend(deps)
    return found


def check_graph(res, codes, chunks, method, legname, twod=False, closure=True, split_every=None):
    """codes: int array (1-D or 2-D) with -1 = missing label (given to flox as float NaN)."""
    import dask
    import dask.array as da

    codes = np.asarray(codes)
    n = codes.size
    labels = np.where(codes < 0, np.nan, codes.astype(float))
    prov = (2.0 ** np.arange(n)).reshape(codes.shape)
    V = np.stack([prov, prov * 2.0**n])  # two batch slices with disjoint bit ranges
    arr = da.from_array(V, chunks=((1, 1),) + tuple(chunks), name="input-" + dask.base.tokenize(V, chunks))
    kw = dict(func="sum", method=method, engine="numpy")
    present = sorted(set(int(c) for c in codes.ravel() if c >= 0))
    case = dict(codes=codes.tolist(), chunks=[list(c) for c in chunks], method=method, split_every=split_every)
    tags = dict(leg2=legname, method=str(method), split_every=split_every)
    size = n * 10 + sum(len(c) for c in chunks)
    ref = blocks_of_labels(codes, chunks)
    if method == "blockwise":
        ok = all(len(b) == 1 for b in ref.values()) if codes.ndim > 1 else e1.blockwise_layout_ok(codes, chunks[0])[0]
        if not ok:
            res.outcomes["blockwise-precondition-unmet(not run)"] += 1
            return
    res.evaluations += 1
    res.states += 1
    res.transitions += 1
    with dask.config.set(**({"split_every": split_every} if split_every else {})):
        out = e1.call_reduce(arr, labels, compute=False, **kw)
    if out.kind == "refused":
        res.outcomes[f"refused:{out.exc}"] += 1
        return
    if out.kind == "error":
        res.outcomes[f"error:{out.exc}"] += 1
        res.violate("graph-error", case, out.brief(), "a graph", tags=dict(tags, kind="error", exc=out.exc), size=size)
        return
    result, groups = out.result, np.asarray(out.groups[0])
    # -- closure of every output key, on the unexecuted graph
    if closure and hasattr(result, "__dask_graph__"):
        graph = dict(result.__dask_graph__())
        nblocks = tuple(len(c) for c in chunks)
        gchunks = result.chunks[-1]
        if not any(c != c for c in gchunks) and len(groups) == sum(gchunks):
            gb = space.chunk_bounds(gchunks)
            for key in itertools.product(*[range(nb) for nb in result.numblocks]):
                b, gi = key[0], key[-1]
                labs = [int(x) for x in groups[gb[gi]:gb[gi + 1]] if x == x and x >= 0]
                got = closure_inputs(graph, (result.name,) + key, arr.name)
                need = set()
                for lab in labs:
                    for flat in ref.get(lab, ()):
                        need.add((arr.name, b) + tuple(int(i) for i in np.unravel_index(flat, nblocks)))
                res.extra["closures"] += 1
                foreign = {k for k in got if k[1] != b}
                if not need <= got or foreign:
                    res.violate("graph-closure", dict(case, output_key=list(key), labels=labs),
                                dict(missing=sorted(need - got), foreign_batch=sorted(foreign)), "closure covers every block holding one of the chunk's labels and nothing of another batch slice",
                                tags=dict(tags, kind="closure"), size=size)
                    break
    # -- execute and decode
    try:
        with np.errstate(all="ignore"):
            val = np.asarray(result.compute(scheduler="sync"))
    except Exception as e:
        res.outcomes[f"error:{type(e).__name__}"] += 1
        res.violate("graph-error", case, dict(exc=type(e).__name__, msg=str(e)[:200], where="compute"), "a result",
                    tags=dict(tags, kind="error", exc=type(e).__name__), size=size)
        return
    res.compared += 1
    if list(groups.tolist()) != [float(p) for p in present]:
        res.violate("graph-labels", case, dict(groups=groups), dict(groups=present), tags=dict(tags, kind="labels"), size=size)
        return
    want = np.zeros((2, len(present)))
    for gi, lab in enumerate(present):
        s = float(prov[codes == lab].sum())
        want[0, gi] = s
        want[1, gi] = s * 2.0**n
    if val.shape != want.shape or not np.array_equal(val, want):
        res.outcomes["mismatch"] += 1

        def bits(x):
            x = int(x)
            return [i for i in range(2 * n) if x >> i & 1]

        res.violate("graph-provenance", case,
                    dict(sums=val, members_decoded=[[bits(v) for v in row] for row in val] if val.shape == want.shape and np.all(val == np.floor(val)) and np.all(val >= 0) else "n/a"),
                    dict(sums=want), tags=dict(tags, kind="value"), size=size)
        return
    res.outcomes["ok"] += 1


# ---------------------------------------------------------------------------------- enumeration


def grids_2d(shape):
    r, c = shape
    return [(cr, cc) for cr in space.compositions(r) for cc in space.compositions(c)]


def realise_incidence(sets, k):
    """Label array + chunks realising a label-by-block incidence: block i holds one element per label whose set has i
    (labels in ascending order), or a single missing element if none."""
    codes, chunks = [], []
    for i in range(k):
        here = [lab for lab, s in enumerate(sets) if s >> i & 1]
        if not here:
            here = [-1]
        codes.extend(here)
        chunks.append(len(here))
    return np.array(codes), (tuple(chunks),)


def run_shard(shard):
    e1.reset_flox_caches()
    res = Result()
    leg = shard["leg"]
    if leg == "planner-1d":
        n = shard["n"]
        pairs = [(lt, ch) for lt in itertools.product((-1, 0, 1, 2, 3), repeat=n) for ch in space.compositions(n)]
        pairs = [p for i, p in enumerate(pairs) if i % shard["nparts"] == shard["part"]]
        for lt, ch in pairs:
            codes = np.array(lt)
            mx = int(codes.max())
            for merge in (False, True):
                for expected in ((None, mx + 1, mx + 3) if mx >= 0 else (2,)):
                    check_planner(res, codes, (ch,), merge, expected, leg)
            if len(ch) >= 2 and any(len(b) >= 2 for b in blocks_of_labels(codes, (ch,)).values()):
                res.nontrivial += 6
        res.sample(dict(leg=leg, codes=list(pairs[len(pairs) // 2][0]), chunks=list(pairs[len(pairs) // 2][1]), merge=[False, True]))
    elif leg == "planner-2d":
        small = shard["shape"].endswith("s")
        r, c = map(int, shard["shape"].rstrip("s").split("x"))
        arrays = list(itertools.product((-1, 0, 1) if small else (-1, 0, 1, 2), repeat=r * c))
        arrays = [a for i, a in enumerate(arrays) if i % shard["nparts"] == shard["part"]]
        for a in arrays:
            codes = np.array(a).reshape(r, c)
            mx = int(codes.max())
            for grid in grids_2d((r, c)):
                for merge in (False, True):
                    for expected in ((None, mx + 2) if mx >= 0 else (2,)):
                        check_planner(res, codes, grid, merge, expected, leg)
                if any(len(b) >= 2 for b in blocks_of_labels(codes, grid).values()):
                    res.nontrivial += 4
        res.sample(dict(leg=leg, codes=np.array(arrays[len(arrays) // 2]).reshape(r, c), grids=len(grids_2d((r, c)))))
    elif leg == "planner-inc":
        k, L = shard["k"], shard["L"]
        combos = itertools.product(range(1, 2**k), repeat=L)
        for i, sets in enumerate(combos):
            if i % shard["nparts"] != shard["part"]:
                continue
            codes, chunks = realise_incidence(sets, k)
            for merge in (False, True):
                check_planner(res, codes, chunks, merge, None, leg)
            if any(bin(s).count("1") >= 2 for s in sets):
                res.nontrivial += 2
            if i == shard["part"]:
                res.sample(dict(leg=leg, k=k, L=L, incidence=[bin(s) for s in sets], codes=codes, chunks=list(chunks[0])))
    elif leg == "graph-1d":
        n = shard["n"]
        pairs = [(lt, ch) for lt in itertools.product(shard["alphabet"], repeat=n) for ch in space.compositions(n)]
        pairs = [p for i, p in enumerate(pairs) if i % shard["nparts"] == shard["part"]]
        for lt, ch in pairs:
            codes = np.array(lt)
            if (codes < 0).all():
                continue
            for method in shard.get("methods", (None, "map-reduce", "cohorts", "blockwise")):
                check_graph(res, codes, (ch,), method, leg, closure=(n <= 5))
            if len(ch) >= 5:  # deeper per-cohort trees (3 levels with 5 blocks)
                check_graph(res, codes, (ch,), "cohorts", leg, closure=True, split_every=2)
            if len(ch) >= 2 and any(len(b) >= 2 for b in blocks_of_labels(codes, (ch,)).values()):
                res.nontrivial += 4
        res.sample(dict(leg=leg, codes=list(pairs[len(pairs) // 2][0]), chunks=list(pairs[len(pairs) // 2][1]),
                        data="element i carries 2**i; second batch slice 2**(i+n)"))
    elif leg == "graph-inc":
        k, L = shard["k"], shard["L"]
        for i, sets in enumerate(itertools.product(range(1, 2**k), repeat=L)):
            if i % shard["nparts"] != shard["part"]:
                continue
            codes, chunks = realise_incidence(sets, k)
            for method in (None, "cohorts"):
                check_graph(res, codes, chunks, method, leg, closure=False)
            if any(bin(s).count("1") >= 2 for s in sets):
                res.nontrivial += 2
            if i == shard["part"]:
                res.sample(dict(leg=leg, k=k, L=L, incidence=[bin(s) for s in sets], codes=codes, chunks=list(chunks[0])))
    elif leg == "graph-2d":
        r, c = map(int, shard["shape"].split("x"))
        arrays = list(itertools.product((-1, 0, 1), repeat=r * c))
        arrays = [a for i, a in enumerate(arrays) if i % shard["nparts"] == shard["part"]]
        for a in arrays:
            codes = np.array(a).reshape(r, c)
            if (codes < 0).all():
                continue
            for grid in grids_2d((r, c)):
                for method in (None, "map-reduce", "cohorts"):
                    check_graph(res, codes, grid, method, leg, twod=True, closure=(r * c <= 4))
                if any(len(b) >= 2 for b in blocks_of_labels(codes, grid).values()):
                    res.nontrivial += 3
        res.sample(dict(leg=leg, codes=np.array(arrays[len(arrays) // 2]).reshape(r, c), grids=len(grids_2d((r, c)))))
    return res


def replay(payload):
    res = Result()
    c = payload["case"]
    codes = np.array(c["codes"])
    chunks = tuple(tuple(x) for x in c["chunks"])
    if payload["leg"].startswith("planner"):
        check_planner(res, codes, chunks, c["merge"], c["expected_size"], "replay")
    else:
        check_graph(res, codes, chunks, c["method"], "replay", closure=True, split_every=c.get("split_every"))
    return res
