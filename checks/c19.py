"""C19  unsupported requests are refused cleanly; the automatic plan works wherever map-reduce does.

E1 over the argument product: reduction x engine x method x reindex x labels numpy|dask x label layout (1-D, 2-D,
3-D; axis None / last) x expected_groups given|absent x fill_value x chunk layout (single block, (2,2,2), size-1
blocks, 9 blocks > split_every) x degenerate labels (no requested label present).  Every cell is classified:
ok / refused (ValueError, NotImplementedError, ImportError) / INTERNAL (any other exception, at call or compute) /
WRONG (differs from the eager reference).  Implications: map-reduce ok => method=None ok and equal; cohorts or
blockwise (precondition met) ok => equal to the reference."""

from __future__ import annotations

import itertools

import numpy as np

from mc import e1, refmodel as rm
from mc.runner import Result

PROPERTY = "C19"
LEVEL = "model_checking"
TECHNIQUE = "exhaustive enumeration of the argument product with outcome classification and implication checks between plans"
ENGINE = "E1"
RULE = (
    "state = one cell of reduction x engine x method x reindex x labels numpy|dask x layout x expected_groups x fill_value x chunking; "
    "transition = the real groupby_reduce call and compute. Outcome classes ok / refused / INTERNAL / WRONG; INTERNAL and WRONG are "
    "violations; per (cell without method): map-reduce ok => method=None ok with the same answer; explicit cohorts / blockwise "
    "(when its documented precondition holds) either equal the reference or are refused. Non-trivial = a cell that is refused or "
    "that exercises a planner decision (method=None) or a degenerate layout."
)
RULE = RULE + (" scan-args leg: groupby_scan x {scan names, Scan instances, reduction names, unknown names, non-scan objects} x chunkings x label kinds x "
               "{engine=, method=, axis pair, dtype as str / np.dtype}: a result (instance == name) or ValueError / NotImplementedError raised by flox.")
ASSUMPTIONS = [
    "inputs stay inside the documented contract: aligned shapes, a fill_value whenever a requested label may be absent, blockwise only asserted when every group lies in one block after the automatic rechunk",
    "the eager numpy-engine result is the reference (tied to NumPy by C01)",
    "value dtypes are float64 (int64 for nanlast); dtype-specific refusals are C11's",
]

NAN = float("nan")
FUNCS = ["sum", "nanmax", "count", "nanmean", "var", "argmax", "nanargmin", "nanfirst", "first", "median", "any", "nanprod", "quantile1"]
# "quantile1": func="quantile" with a vector q of length one (a new leading axis of length 1)


def func_kw(func):
    if func == "quantile1":
        return dict(func="quantile", finalize_kwargs=dict(q=[0.5]))
    return dict(func=func)
ENGINES = [None, "numpy", "flox", "numbagg", "numba"]
METHODS = [None, "map-reduce", "cohorts", "blockwise"]
REINDEX = [None, True, False]

# (name, labels array, array shape = batch + label shape, axis, chunk grids for the label dims)
LAYOUTS = {
    "1d": (np.array([0.0, 1.0, 0.0, 1.0, 2.0, NAN]), None, [((6,),), ((2, 2, 2),), ((1,) * 6,)]),
    "1d-sorted": (np.array([0.0, 0.0, 1.0, 1.0, 2.0, 2.0]), None, [((6,),), ((2, 2, 2),), ((3, 3),)]),
    "1d-9blocks": (np.array([0.0, 1.0, 0.0, 1.0, 0.0, 1.0, 0.0, 1.0, 2.0]), None, [((1,) * 9,)]),
    "1d-none-present": (np.array([7.0, 8.0, 7.0, 8.0, 7.0, 8.0]), None, [((6,),), ((2, 2, 2),)]),
    "1d-all-missing": (np.array([NAN] * 6), None, [((6,),), ((2, 2, 2),)]),  # every label missing: no group at all
    # labels 0 and 1 share three of their four blocks (containment 0.75): the planner merges them into one cohort
    "1d-merged-cohorts": (np.array([0.0, 0, 0, 1, 0, 1, 0, 1, 1, 1, 2, 2, 2, 2, 3, 3, 3, 3, 3, 3]), None, [((2,) * 10,)]),
    "2d": (np.array([[0.0, 1.0, 0.0], [1.0, NAN, 2.0]]), None, [((2,), (3,)), ((1, 1), (3,)), ((2,), (1, 2)), ((1, 1), (1, 1, 1))]),
    "2d-last": (np.array([[0.0, 1.0, 0.0], [1.0, NAN, 2.0]]), -1, [((2,), (3,)), ((1, 1), (3,)), ((2,), (1, 2))]),
    "3d": (np.array([[[0.0, 1.0], [1.0, 0.0]], [[2.0, NAN], [0.0, 1.0]]]), None, [((2,), (2,), (2,)), ((1, 1), (2,), (2,)), ((2,), (1, 1), (1, 1))]),
    "3d-last": (np.array([[[0.0, 1.0], [1.0, 0.0]], [[2.0, NAN], [0.0, 1.0]]]), -1, [((2,), (2,), (2,)), ((2,), (2,), (1, 1))]),
}


def bounds(tier, seed):
    return dict(funcs=FUNCS, engines=[str(e) for e in ENGINES], layouts=list(LAYOUTS))


def shards(tier, seed):
    out = []
    for func in FUNCS:
        for engine in ENGINES:
            for layout in LAYOUTS:
                out.append(dict(func=func, engine=engine, layout=layout, tier=tier))
    out.sort(key=lambda s: 0 if s["engine"] in ("numba", "numbagg") else 1)
    out.append(dict(leg="scan-args", tier=tier))
    return out


def values_for(shape, func):
    n = int(np.prod(shape))
    base = np.array([1.0, -2.0, 3.5, NAN, 0.5, -7.0, 4.0, 2.0, -1.0, 6.0, 0.25, 9.0, -3.0, 8.0, 5.0, -4.0] * 3)[:n].reshape(shape)
    if func == "any":
        return np.nan_to_num(base) > 0
    if func == "argmax":
        return np.where(np.isnan(base), 2.5, base)  # argmax is only defined on NaN-free groups
    return base


def classify(out):
    if out.kind == "ok":
        return "ok"
    if out.kind == "refused":
        return "refused"
    return "INTERNAL"


def reference(func, V, labels, axis, expected, fill, cache):
    key = (func, axis, expected, fill if fill == fill else "nan")
    if key not in cache:
        kw = dict(engine="numpy", axis=axis, **func_kw(func))
        if expected:
            kw["expected_groups"] = np.array([0.0, 1.0, 2.0, 3.0])
        if fill is not None:
            kw["fill_value"] = fill
        if func in ("median", "quantile1"):
            kw["engine"] = "flox"
        cache[key] = e1.call_reduce(V, labels, **kw)
    return cache[key]


def run_scan_args(res):
    """groupby_scan's argument forms: every scan by name and as the documented Scan instance (same result), names of
    reductions / unknown names / non-scan objects, engine / method / several axes / 2-D labels: ok or a clean refusal."""
    import dask.array as da
    import flox
    import flox.aggregations as fa

    V = np.array([[1.0, NAN, 3.0, -2.0, NAN, 5.0], [0.0, 1.0, NAN, NAN, 2.0, -1.0]])
    lab = np.array([0.0, 1.0, 0.0, 1.0, 1.0, 0.0])
    lab2 = np.stack([lab, lab[::-1]])
    forms = [(n, n) for n in ("nancumsum", "ffill", "bfill")] + [("Scan:" + n, getattr(fa, n)) for n in ("nancumsum", "ffill", "bfill") if hasattr(fa, n)]
    forms += [("reduction-name:sum", "sum"), ("reduction-name:nanmax", "nanmax"), ("unknown-name", "cumprod"), ("Aggregation-object", fa.sum_), ("callable", np.cumsum)]
    byname = {}
    for fname, func in forms:
        for chunks, by, extra in itertools.product((None, (2, 2, 2), (6,), (1,) * 6), ("1d", "1d-dask", "2d"),
                                                   ({}, dict(engine="numpy"), dict(method="map-reduce"), dict(axis=(-2, -1)), dict(dtype="float32"), dict(dtype=np.dtype("float32")))):
            if by == "1d-dask" and chunks is None:
                continue
            arr = V if chunks is None else da.from_array(V, chunks=((2,), chunks))
            byv = lab2 if by == "2d" else (da.from_array(lab, chunks=(chunks,)) if by == "1d-dask" else lab)
            out = e1.call_scan(arr, byv, func=func, **extra)
            res.evaluations += 1
            res.states += 1
            res.transitions += 1
            cls = classify(out)
            res.outcomes[f"{cls}:{out.exc}" if cls != "ok" else "ok"] += 1
            case = dict(leg="scan-args", form=fname, chunks=list(chunks) if chunks else None, by=by, extra={k: (list(v) if isinstance(v, tuple) else v) for k, v in extra.items()})
            tags = dict(leg2="scan-args", form=fname.split(":")[0], kind="internal", exc=out.exc, by=by, where=out.where)
            if cls == "INTERNAL" or (out.kind == "refused" and out.exc == "ValueError" and out.origin not in ("flox", None) and out.where == "compute"):
                res.violate("internal-error", case, out.brief(), "a result or ValueError / NotImplementedError raised by flox", tags=tags, size=10)
                continue
            res.compared += 1
            if cls == "ok":
                key = (fname.split(":")[-1], chunks, by, tuple(sorted((k, str(v)) for k, v in extra.items())))
                r = np.asarray(out.result, dtype=float)
                if not fname.startswith(("Scan:", "nancumsum", "ffill", "bfill")):
                    res.violate("non-scan-accepted", case, dict(result=r), "a refusal: not a scan", tags=dict(tags, kind="accepted"), size=10)
                    continue
                if key in byname and (byname[key].shape != r.shape or rm.mismatch(byname[key], r, rtol=0).any()):
                    res.violate("scan-instance-differs", case, dict(instance=r), dict(name=byname[key]), tags=dict(tags, kind="value"), size=10)
                    continue
                byname.setdefault(key, r)
                res.nontrivial += 1
    res.sample(dict(leg="scan-args", forms=[f for f, _ in forms]))
    return res


def run_shard(shard):
    import dask.array as da

    e1.reset_flox_caches()
    res = Result()
    if shard.get("leg") == "scan-args":
        return run_scan_args(res)
    func, engine, layout = shard["func"], shard["engine"], shard["layout"]
    labels, axis, grids = LAYOUTS[layout]
    shape = (2,) + labels.shape
    V = values_for(shape, func)
    refcache = {}
    fills = (None, -1.0, NAN)
    for grid, labels_dask, expected, fill, reindex in itertools.product(grids, (False, True), (False, True), fills, REINDEX):
        if fill is None and (expected or "none-present" in layout):
            continue  # contract: a fill_value whenever a requested label may be absent
        if fill is not None and not expected and axis is None:
            continue  # fill_value without expected_groups changes nothing but min_count: covered by C05
        if func == "any" and fill is not None:
            fill_ = False
        else:
            fill_ = fill
        outcomes = {}
        answers = {}
        # the same request on the in-memory array (once per cell): it must not fail internally either
        nref = len(refcache)
        ref0 = reference(func, V, labels, axis, expected, fill_, refcache)
        if len(refcache) > nref:
            res.evaluations += 1
            res.transitions += 1
            if ref0.kind == "error" or (ref0.kind == "refused" and ref0.origin != "flox"):
                res.outcomes["INTERNAL"] += 1
                res.violate("internal-error", dict(func=func, engine="numpy" if func not in ("median", "quantile1") else "flox", layout=layout, eager=True, expected=expected,
                                                   fill=None if fill_ is None else (fill_ if fill_ == fill_ else "nan")),
                            ref0.brief(), "ValueError / NotImplementedError / ImportError, or a result",
                            tags=dict(func=func, engine="eager", layout=layout, expected=expected, kind="internal", exc=ref0.exc, where=ref0.where, eager=True), size=9)
        for method in METHODS:
            kw = dict(engine=engine, method=method, reindex=reindex, axis=axis, **func_kw(func))
            if expected:
                kw["expected_groups"] = np.array([0.0, 1.0, 2.0, 3.0])
            if fill_ is not None:
                kw["fill_value"] = fill_
            arr = da.from_array(V, chunks=((1, 1),) + grid)
            by = da.from_array(labels, chunks=grid) if labels_dask else labels
            out = e1.call_reduce(arr, by, **kw)
            res.evaluations += 1
            res.states += 1
            res.transitions += 1
            cls = classify(out)
            case = dict(func=func, engine=engine, layout=layout, grid=[list(g) for g in grid], labels_dask=labels_dask, expected=expected,
                        fill=None if fill_ is None else (fill_ if fill_ == fill_ else "nan"), reindex=reindex, method=method)
            tags = dict(func=func, engine=str(engine), layout=layout, labels_dask=labels_dask, expected=expected, reindex=str(reindex), method=str(method),
                        nblocks=int(np.prod([len(g) for g in grid])), fill=str(fill_))
            size = 10 + sum(len(g) for g in grid)
            # documented precondition of blockwise
            if method == "blockwise":
                if labels.ndim == 1:
                    codes = np.where(np.isnan(labels), -1, labels).astype(int)
                    if expected is False and "none-present" in layout:
                        codes = codes - 7
                    pre = e1.blockwise_layout_ok(codes, grid[0])[0] and not labels_dask
                else:
                    pre = all(len(g) == 1 for g in grid)  # n-D labels: the caller must guarantee it; single block does
                if not pre:
                    res.outcomes["blockwise-precondition-unmet(not asserted)"] += 1
                    outcomes[method] = "n/a"
                    continue
            if cls == "refused" and out.origin != "flox":
                # a ValueError that surfaces from numpy/dask/pandas (at call or compute time) is not a refusal by
                # flox but an internal failure that happens to have a benign type
                cls = "INTERNAL"
            outcomes[method] = cls
            res.outcomes[cls if cls != "refused" else f"refused:{out.exc}@{out.where}/{out.origin}"] += 1
            if cls == "INTERNAL":
                res.violate("internal-error", case, out.brief(), "ValueError / NotImplementedError / ImportError, or a result",
                            tags=dict(tags, kind="internal", exc=out.exc, where=out.where), size=size)
                continue
            if cls == "ok":
                ref = reference(func, V, labels, axis, expected, fill_, refcache)
                res.compared += 1
                if ref.kind == "ok":
                    exp = np.asarray(ref.result)
                    obs = np.asarray(out.result)
                    bad = None
                    if obs.shape != exp.shape:
                        bad = ("shape", list(obs.shape), list(exp.shape))
                    else:
                        mm = rm.mismatch(obs.astype(float), exp.astype(float), rtol=1e-9)
                        if mm.any():
                            bad = tuple(int(i) for i in np.argwhere(mm)[0])
                    if bad is not None or not rm.same_labels(out.groups[0], list(np.asarray(ref.groups[0]).tolist())):
                        outcomes[method] = "WRONG"
                        res.outcomes["WRONG"] += 1
                        res.violate("wrong-answer", case, dict(result=obs, groups=out.groups[0]), dict(result=exp, groups=ref.groups[0]),
                                    tags=dict(tags, kind="wrong"), size=size)
                        continue
                answers[method] = np.asarray(out.result)
        # implication 1: explicit map-reduce works => the automatic plan works too
        if outcomes.get("map-reduce") == "ok" and outcomes.get(None) not in ("ok", "WRONG", "INTERNAL"):
            res.outcomes["auto-plan-weaker"] += 1
            res.violate("auto-plan-refuses", dict(func=func, engine=engine, layout=layout, grid=[list(g) for g in grid], labels_dask=labels_dask,
                                                  expected=expected, fill=None if fill_ is None else (fill_ if fill_ == fill_ else "nan"), reindex=reindex),
                        dict(method_None=outcomes.get(None), map_reduce="ok"), "method=None succeeds wherever method='map-reduce' does",
                        tags=dict(func=func, engine=str(engine), layout=layout, labels_dask=labels_dask, expected=expected, reindex=str(reindex), kind="implication",
                                  nblocks=int(np.prod([len(g) for g in grid]))), size=12 + sum(len(g) for g in grid))
        if any(v == "refused" for v in outcomes.values()) or "none-present" in layout:
            res.nontrivial += 4
        else:
            res.nontrivial += 1
    res.sample(dict(func=func, engine=engine, layout=layout, labels=labels, axis=axis, grids=[[list(g) for g in grid] for grid in grids],
                    options="method x reindex x labels numpy|dask x expected x fill"))
    return res


def replay(payload):
    from mc.runner import unjson_float
    import dask.array as da

    res = Result()
    c = payload["case"]
    if c.get("leg") == "scan-args":
        return run_scan_args(Result())
    labels, axis, grids = LAYOUTS[c["layout"]]
    V = values_for((2,) + labels.shape, c["func"])
    if c.get("eager"):
        fill = unjson_float(c["fill"]) if c.get("fill") is not None else None
        out = reference(c["func"], V, labels, axis, c["expected"], fill, {})
        if out.kind == "error" or (out.kind == "refused" and out.origin != "flox"):
            res.violate("internal-error", c, out.brief(), "clean refusal or result", tags=dict(kind="internal", exc=out.exc), size=9)
        return res
    grid = tuple(tuple(g) for g in c["grid"])
    fill = unjson_float(c["fill"]) if c.get("fill") is not None else None
    methods = [c["method"]] if "method" in c else [None, "map-reduce"]
    outs = {}
    for m in methods:
        kw = dict(engine=c["engine"], method=m, reindex=c["reindex"], axis=axis, **func_kw(c["func"]))
        if c["expected"]:
            kw["expected_groups"] = np.array([0.0, 1.0, 2.0, 3.0])
        if fill is not None:
            kw["fill_value"] = fill
        arr = da.from_array(V, chunks=((1, 1),) + grid)
        by = da.from_array(labels, chunks=grid) if c["labels_dask"] else labels
        outs[m] = e1.call_reduce(arr, by, **kw)
    for m, out in outs.items():
        if out.kind == "error":
            res.violate("internal-error", c, out.brief(), "clean refusal or result", tags=dict(kind="internal", exc=out.exc), size=10)
    if "method" not in c and outs["map-reduce"].kind == "ok" and outs[None].kind != "ok":
        res.violate("auto-plan-refuses", c, outs[None].brief(), "method=None succeeds", tags=dict(kind="implication"), size=10)
    return res
