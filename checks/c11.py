"""C11  result dtype, shape and chunk metadata are plan-independent and truthful.

E1 over configurations: input dtype x reduction x dtype= x fill_value x min_count x engine x strategy x chunking.
(i) rule table from the property text (NumPy conventions); (ii) dtype/shape identical across engines, strategies
and chunkings of one cell; (iii) for chunked results the dtype/shape/chunks/meta announced before computing are
those of the computed array and of every computed block."""

from __future__ import annotations

import itertools

import numpy as np

from mc import e1
from mc.runner import Result

PROPERTY = "C11"
LEVEL = "model_checking"
TECHNIQUE = "exhaustive enumeration of the dtype x reduction x option x plan table with block-by-block computation"
ENGINE = "E1"
RULE = (
    "state = (input dtype, reduction, dtype=, fill_value, min_count, engine, strategy = eager | (method, chunking of a 6-element axis)); "
    "every cell of the product is executed with the real groupby_reduce; for lazy results every block is computed separately as well. "
    "Oracles: (i) NumPy-convention rule table (sum/prod -> default-integer promotion, mean/var/std -> floating, min/max/first/last -> input "
    "dtype, count/arg* -> intp, any/all -> bool, explicit dtype= wins, then widened by np.result_type(.., fill_value)); (ii) one dtype and "
    "shape per cell across all plans; (iii) announced dtype/shape/chunks/meta type == computed, block by block. "
    "Geometry leg: (2,2,3) array with 2-D labels x every spelling of axis (order, sign) x chunk grids x methods x 1-2 groupers x numpy/dask labels: "
    "announced shape/chunks/dtype/meta == computed array == every computed block == eager geometry. "
    "Non-trivial = a cell where the result dtype differs from the input dtype, or a fill_value is requested."
)
ASSUMPTIONS = [
    "data are fixed and small ([1,2,3,1,2,3] cast to the dtype): dtype logic, not values, is explored",
    "rule (i) is asserted for numeric/bool inputs with dtype=None or a float dtype=, and for datetime/timedelta inputs with dtype=None under min/max/first/last/count (the cells the property names); (ii) and (iii) are asserted everywhere flox does not refuse",
]

NAN = float("nan")
DTYPES = ["bool", "int8", "uint8", "int16", "uint16", "int32", "uint32", "int64", "uint64", "float32", "float64", "datetime64[ns]", "timedelta64[ns]"]
SUMS = ["sum", "nansum", "prod", "nanprod"]
MEANS = ["mean", "nanmean", "var", "nanvar", "std", "nanstd"]
KEEP = ["max", "nanmax", "min", "nanmin", "first", "last", "nanfirst", "nanlast"]
INTP = ["count", "argmax", "nanargmax", "argmin", "nanargmin"]
BOOLS = ["any", "all"]
QUICK_FUNCS = ["sum", "nanprod", "mean", "nanvar", "std", "max", "nanmin", "first", "nanlast", "count", "argmax", "nanargmin", "any", "median", "nanquantile"]
ALL_FUNCS = SUMS + MEANS + KEEP + INTP + BOOLS + ["median", "nanquantile"]
LABELS = np.array([0, 0, 1, 1, 2, 2])
EXPECTED = np.array([0, 1, 2, 3])  # 3 never occurs: its slot needs the fill


def bounds(tier, seed):
    return dict(funcs=QUICK_FUNCS if tier == "quick" else ALL_FUNCS, user_dtypes=[None, "float32", "int32"] if tier == "quick" else [None, "float32", "float64", "int64", "int32"],
                min_counts=[None] if tier == "quick" else [None, 1])


GEOM_FUNCS = ["sum", "nanmax", "count", "argmax", "nanmean", "first", "nanvar", "quantile-vector", "nanmedian", "any"]


def shards(tier, seed):
    b = bounds(tier, seed)
    out = [dict(dtype=dt, func=f, tier=tier) for dt in DTYPES for f in b["funcs"]]
    # geometry: n-D labels, every axis subset, chunk grids over batch and label axes, one or two groupers
    for f in GEOM_FUNCS:
        for groupers in (1, 2):
            out.append(dict(leg="geom", func=f, groupers=groupers, tier=tier))
    return out


def truth_problems(res, result, want_dtype=None):
    """(iii): what a lazy result announces (dtype, shape, chunks, meta type) against the computed array and every computed block."""
    announced = (np.dtype(result.dtype), tuple(result.shape))
    with np.errstate(all="ignore"):
        full = result.compute(scheduler="sync")
    res.transitions += 1
    probs = []
    if np.dtype(full.dtype) != announced[0]:
        probs.append(f"announced dtype {announced[0]} but computed {full.dtype}")
    if tuple(full.shape) != announced[1]:
        probs.append(f"announced shape {announced[1]} but computed {full.shape}")
    if type(result._meta) is not type(full):
        probs.append(f"announced array type {type(result._meta).__name__} but computed {type(full).__name__}")
    if np.dtype(result._meta.dtype) != announced[0] or result._meta.ndim != len(announced[1]):
        probs.append(f"meta is {result._meta.dtype}/{result._meta.ndim}-d but the array announces {announced[0]}/{len(announced[1])}-d")
    if any(c != c for dim in result.chunks for c in dim):
        probs.append(f"unknown chunk sizes announced: {result.chunks}")
    elif tuple(sum(c) for c in result.chunks) != announced[1]:
        probs.append(f"chunks {result.chunks} do not add up to the announced shape {announced[1]}")
    else:
        for idx in itertools.product(*[range(n) for n in result.numblocks]):
            blk = result.blocks[idx].compute(scheduler="sync")
            want = tuple(result.chunks[d][i] for d, i in enumerate(idx))
            res.transitions += 1
            if tuple(blk.shape) != want or np.dtype(blk.dtype) != announced[0]:
                probs.append(f"block {idx}: announced {want}/{announced[0]} but computed {tuple(blk.shape)}/{blk.dtype}")
                break
    return probs, full


def run_geom(res, func, groupers, tier):
    """Shape / chunk truthfulness and plan independence beyond one label axis."""
    import dask.array as da

    lab = np.array([[0.0, 1.0, 0.0], [2.0, 1.0, NAN]])
    lab2 = np.array([[10, 10, 20], [20, 10, 10]])
    V = np.arange(12, dtype=float).reshape(2, 2, 3) - 4
    V[1, 0, 1] = NAN
    if func == "any":
        V = V > 0
    kwf = dict(func=func)
    if func == "quantile-vector":
        kwf = dict(func="quantile", finalize_kwargs=dict(q=[0.25, 0.5, 0.75]))
    axes = [None, (-1,), (-2,), (-2, -1), (-1, -2), (1, 2), (2,)]
    grids = [((2,), (2,), (3,)), ((1, 1), (2,), (3,)), ((2,), (1, 1), (3,)), ((2,), (2,), (2, 1)), ((1, 1), (1, 1), (1, 1, 1)), ((2,), (1, 1), (2, 1))]
    if tier == "quick":
        grids = grids[:1] + grids[2:]
    for axis, expected in itertools.product(axes, (False, True)):
        kw = dict(kwf)
        if axis is not None:
            kw["axis"] = axis
        by = (lab,) if groupers == 1 else (lab, lab2)
        if expected:
            kw["expected_groups"] = np.array([0.0, 1.0, 2.0, 3.0]) if groupers == 1 else (np.array([0.0, 1.0, 2.0, 3.0]), np.array([10, 20]))
            kw["fill_value"] = 0 if func != "any" else False
        elif groupers == 2 or (axis is not None and len(axis) == 1):
            kw["fill_value"] = 0 if func != "any" else False  # a label may be absent from a slice
        ref = e1.call_reduce(V, *by, **kw)
        res.evaluations += 1
        res.transitions += 1
        cell = dict(leg="geom", func=func, groupers=groupers, axis=list(axis) if axis else None, expected=expected)
        if ref.kind != "ok":
            res.outcomes[f"eager-{ref.kind}:{ref.exc}"] += 1
        ref_sig = (str(np.asarray(ref.result).dtype), tuple(np.asarray(ref.result).shape)) if ref.kind == "ok" else None
        for grid, method, engine, ldask in itertools.product(grids, ("map-reduce", "cohorts", "blockwise", None), ("numpy", "flox"), (False, True)):
            if ldask and (not expected or engine == "flox"):
                continue
            if engine == "flox" and method not in ("map-reduce", None):
                continue
            case = dict(cell, grid=[list(g) for g in grid], method=method, engine=engine, labels_dask=ldask)
            tags = dict(leg2="geom", func=func, groupers=groupers, method=str(method), engine=engine, naxes=len(axis) if axis else 2, expected=expected, labels_dask=ldask)
            arr = da.from_array(V, chunks=grid)
            byd = tuple(da.from_array(b, chunks=grid[1:]) for b in by) if ldask else by
            out = e1.call_reduce(arr, *byd, compute=False, method=method, engine=engine, **kw)
            res.evaluations += 1
            res.states += 1
            res.transitions += 1
            if out.kind != "ok":
                res.outcomes[f"{out.kind}:{out.exc}"] += 1
                continue
            result = out.result
            if not hasattr(result, "compute"):
                res.outcomes["eager-object"] += 1
                continue
            try:
                probs, full = truth_problems(res, result)
            except e1.REFUSALS:
                res.outcomes["refused-at-compute"] += 1
                continue
            except Exception as e:
                res.outcomes[f"error-at-compute:{type(e).__name__}"] += 1
                continue
            res.compared += 1
            sig = (str(np.dtype(full.dtype)), tuple(full.shape))
            if ref_sig is not None and sig != ref_sig:
                probs.append(f"eager result is {ref_sig[0]}{list(ref_sig[1])} but this plan gives {sig[0]}{list(sig[1])}")
            # batch chunks are preserved, reduced label axes disappear, the group axis is ONE chunk per grouper
            if probs:
                res.outcomes["untruthful"] += 1
                res.violate("metadata-untruthful", case, dict(problems=probs), "announced == computed == eager geometry", tags=dict(tags, kind="truth"), size=20 + sum(len(g) for g in grid))
                continue
            res.nontrivial += 1
            res.outcomes["ok"] += 1
    res.sample(dict(leg="geom", func=func, groupers=groupers, array_shape=[2, 2, 3], label_shape=[2, 3], axes=[str(a) for a in axes], grids=len(grids)))
    return res


def rule(func, in_dtype, user_dtype, fill):
    """Result dtype according to the property text, or None where the text makes no statement."""
    dt = np.dtype(in_dtype)
    if func in ("median", "nanquantile"):
        return None
    if dt.kind in "Mm":
        if user_dtype is not None or func in SUMS + MEANS + BOOLS + ["argmax", "nanargmax", "argmin", "nanargmin"]:
            return None
        base = np.dtype(np.intp) if func == "count" else dt
        if fill is not None and func != "count":
            return None
        return base if fill is None else np.result_type(base, fill)
    if user_dtype is not None:
        if np.dtype(user_dtype).kind != "f":
            return None
        base = np.dtype(user_dtype)
    elif func in SUMS:
        base = np.sum(np.zeros(1, dtype=dt)).dtype
    elif func in MEANS:
        base = dt if dt.kind == "f" else np.dtype("float64")
    elif func in KEEP:
        base = dt
    elif func in INTP:
        base = np.dtype(np.intp)
    elif func in BOOLS:
        base = np.dtype(bool)
    else:
        return None
    if fill is not None:
        base = np.result_type(base, fill)
    return base


STRATEGIES_QUICK = [("eager", None), ("map-reduce", (3, 3)), ("map-reduce", (1,) * 6), ("cohorts", (2, 2, 2)), ("blockwise", (2, 2, 2)), ("blockwise", (3, 3)), (None, (2, 2, 2))]
STRATEGIES_ALL = [("eager", None)] + [(m, c) for m in ("map-reduce", "cohorts", "blockwise", None) for c in ((6,), (3, 3), (2, 2, 2), (1,) * 6)]


def make_values(dtype):
    base = np.array([[1, 2, 3, 1, 2, 3], [3, 2, 1, 0, 1, 2]])
    if dtype == "bool":
        return base > 1
    if dtype.startswith("datetime"):
        return (base * 86400 * 10**9).astype("datetime64[ns]")
    if dtype.startswith("timedelta"):
        return (base * 10**9).astype("timedelta64[ns]")
    return base.astype(dtype)


def run_cell(res, in_dtype, func, user_dtype, fillname, min_count, engine, method, chunks, seen):
    import dask.array as da

    V = make_values(in_dtype)
    fill = {"none": None, "zero": 0, "nan": NAN, "nan-noexp": NAN}[fillname]
    kw = dict(func=func, engine=engine)
    if user_dtype is not None:
        kw["dtype"] = user_dtype
    if fill is not None:
        kw["fill_value"] = fill
        if not fillname.endswith("-noexp"):  # "-noexp": a fill_value although every label occurs: the dtype is widened all the same
            kw["expected_groups"] = EXPECTED
    if min_count is not None:
        kw["min_count"] = min_count
    if func == "nanquantile":
        kw["finalize_kwargs"] = dict(q=0.5)
    arr = V
    if method != "eager":
        arr = da.from_array(V, chunks=((2,), chunks))
        kw["method"] = method
    out = e1.call_reduce(arr, LABELS, compute=False, **kw)
    res.evaluations += 1
    res.states += 1
    res.transitions += 1
    case = dict(dtype=in_dtype, func=func, user_dtype=user_dtype, fill=fillname, min_count=min_count, engine=engine, method=method,
                chunks=list(chunks) if chunks else None)
    tags = dict(in_dtype=in_dtype, func=func, user_dtype=str(user_dtype), fill=fillname, engine=str(engine), method=str(method))
    size = 10 + (len(chunks) if chunks else 0)
    if out.kind == "refused":
        res.outcomes[f"refused:{out.exc}"] += 1
        return
    if out.kind == "error":
        res.outcomes[f"error:{out.exc}"] += 1  # internal errors are C19's; recorded here
        return
    result = out.result
    res.compared += 1
    announced = (np.dtype(result.dtype), tuple(result.shape))
    # (iii) truthfulness
    if method != "eager" and hasattr(result, "compute"):
        try:
            with np.errstate(all="ignore"):
                full = result.compute(scheduler="sync")
        except e1.REFUSALS:
            res.outcomes["refused-at-compute"] += 1
            return
        except Exception as e:
            res.outcomes[f"error-at-compute:{type(e).__name__}"] += 1
            return
        res.transitions += 1
        probs = []
        if np.dtype(full.dtype) != announced[0]:
            probs.append(f"announced dtype {announced[0]} but computed {full.dtype}")
        if tuple(full.shape) != announced[1]:
            probs.append(f"announced shape {announced[1]} but computed {full.shape}")
        if type(result._meta) is not type(full):
            probs.append(f"announced array type {type(result._meta).__name__} but computed {type(full).__name__}")
        if any(c != c for dim in result.chunks for c in dim):
            probs.append(f"unknown chunk sizes announced: {result.chunks}")
        else:
            for idx in itertools.product(*[range(n) for n in result.numblocks]):
                blk = result.blocks[idx].compute(scheduler="sync")
                want = tuple(result.chunks[d][i] for d, i in enumerate(idx))
                res.transitions += 1
                if tuple(blk.shape) != want or np.dtype(blk.dtype) != announced[0]:
                    probs.append(f"block {idx}: announced {want}/{announced[0]} but computed {tuple(blk.shape)}/{blk.dtype}")
                    break
        if probs:
            res.outcomes["untruthful"] += 1
            res.violate("metadata-untruthful", case, dict(problems=probs), "announced == computed", tags=dict(tags, kind="truth"), size=size)
            return
        computed_dtype = np.dtype(full.dtype)
    else:
        computed_dtype = announced[0]
    # (i) rule table
    # documented: with min_count set and no fill_value, nansum/nanprod use NaN as the fill (xarray's min_count semantics),
    # so the result is widened to hold it
    eff_fill = NAN if (fill is None and min_count and func in ("nansum", "nanprod")) else fill
    want = rule(func, in_dtype, user_dtype, eff_fill)
    if want is not None and computed_dtype != want:
        res.outcomes["rule-mismatch"] += 1
        res.violate("dtype-rule", case, dict(dtype=str(computed_dtype)), dict(dtype=str(want)), tags=dict(tags, kind="rule"), size=size)
        return
    # (ii) plan independence (collected per cell, judged by the caller)
    seen.setdefault((user_dtype, fillname, min_count), []).append((str(computed_dtype), announced[1], dict(engine=engine, method=method, chunks=list(chunks) if chunks else None)))
    if want is not None and (want != np.dtype(in_dtype) or fill is not None):
        res.nontrivial += 1
    res.outcomes["ok"] += 1


def run_shard(shard):
    e1.reset_flox_caches()
    res = Result()
    if shard.get("leg") == "geom":
        return run_geom(res, shard["func"], shard["groupers"], shard["tier"])
    in_dtype, func, tier = shard["dtype"], shard["func"], shard["tier"]
    b = bounds(tier, 0)
    if func in BOOLS and in_dtype != "bool":
        return res_with_sample(res, shard)
    strategies = STRATEGIES_QUICK if tier == "quick" else STRATEGIES_ALL
    seen = {}
    for user_dtype, fillname, min_count in itertools.product(b["user_dtypes"], ("none", "zero", "nan", "nan-noexp"), b["min_counts"]):
        for method, chunks in strategies:
            engines = ("numpy", "flox", "numbagg") if (method in ("eager", "map-reduce") and (chunks is None or len(chunks) == 2)) or tier != "quick" else ("numpy",)
            for engine in engines:
                run_cell(res, in_dtype, func, user_dtype, fillname, min_count, engine, method, chunks, seen)
    for key, obs in seen.items():
        kinds = {(d, s) for d, s, _ in obs}
        if len(kinds) > 1:
            res.outcomes["plan-dependent"] += 1
            res.violate("dtype-plan-dependent", dict(dtype=in_dtype, func=func, user_dtype=key[0], fill=key[1], min_count=key[2]),
                        dict(observed=[dict(dtype=d, shape=list(s), plan=p) for d, s, p in obs][:12]), "one dtype and shape per cell",
                        tags=dict(in_dtype=in_dtype, func=func, user_dtype=str(key[0]), fill=key[1], kind="plan"), size=20)
    return res_with_sample(res, shard)


def res_with_sample(res, shard):
    res.sample(dict(input_dtype=shard["dtype"], func=shard["func"], cells="dtype= x fill_value x min_count x engine x strategy"))
    return res


def replay(payload):
    res = Result()
    c = payload["case"]
    if c.get("leg") == "geom":
        return run_geom(res, c["func"], c["groupers"], "thorough")
    if "engine" in c:
        run_cell(res, c["dtype"], c["func"], c["user_dtype"], c["fill"], c["min_count"], c["engine"], c["method"], tuple(c["chunks"]) if c.get("chunks") else None, {})
        return res
    return run_shard(dict(dtype=c["dtype"], func=c["func"], tier="quick"))
