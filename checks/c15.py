"""C15  xarray_reduce agrees with xarray's own groupby (flox disabled): values, dims, coords, names, attrs.

E1 over a small grammar of xarray objects: DataArrays with dims drawn from (x, y, t) in every order, groupers that
are a 1-D coordinate, a 1-D coordinate with missing labels, an external DataArray or a 2-D coordinate, reductions x
skipna x min_count x keep_attrs, in memory and dask-chunked, plus Datasets mixing variables with and without the
reduced dimension.  The oracle is the independent split-apply-combine implementation of xarray itself."""

from __future__ import annotations

import itertools
import warnings

import numpy as np

from mc import e1
from mc.runner import Result

PROPERTY = "C15"
LEVEL = "model_checking"
TECHNIQUE = "bounded exhaustive enumeration of a grammar of xarray objects against native xarray (differential oracle)"
ENGINE = "E1"
RULE = (
    "state = (object kind DataArray|Dataset, dim order, grouper kind, reduction, skipna, min_count, keep_attrs, in-memory|chunked); every "
    "state is run through the real xarray_reduce and through obj.groupby(...).<func>() under xr.set_options(use_flox=False). Oracle: "
    "values (allclose, NaN==NaN), dims and their order, coordinates (names and values), variable names and (with keep_attrs) attrs; "
    "Dataset variables without the reduced dimension are returned unchanged. Non-trivial = the grouped dim is not the last one, "
    "or the grouper has missing labels / is 2-D / is external, or the object is a Dataset."
)
ASSUMPTIONS = [
    "dims of size 2-3, one NaN in the data, 11 dim orders x 4 grouper kinds x 13 reductions x 3 skipna settings",
    "native xarray (use_flox=False) is the specification; configurations it refuses itself are skipped",
    "dtype differences are not compared (C11); only values, structure and metadata",
]

NAN = float("nan")
FUNCS = ["sum", "mean", "max", "min", "count", "var", "std", "prod", "first", "last", "median", "quantile", "quantile2", "any", "all"]
QS = {"quantile": 0.5, "quantile2": [0.25, 0.75]}  # scalar q (no new dimension) and vector q (a new "quantile" dimension)
SIZES = dict(x=3, y=2, t=2)


def layouts():
    out = []
    for r in (1, 2, 3):
        for sub in itertools.permutations(("x", "y", "t"), r):
            if "x" in sub:
                out.append(sub)
    return out


def bounds(tier, seed):
    return dict(layouts=len(layouts()), funcs=FUNCS)


def shards(tier, seed):
    out = []
    for dims in layouts():
        for grouper in ("coord1d", "coord1d_nan", "ext", "coord2d"):
            if grouper == "coord2d" and "y" not in dims:
                continue
            out.append(dict(leg="dataarray", dims=list(dims), grouper=grouper, tier=tier))
    out.append(dict(leg="dataset", tier=tier))
    out.append(dict(leg="multi", tier=tier))
    for dims in (("x", "y"), ("y", "x"), ("t", "x", "y"), ("x", "t", "y"), ("y", "x", "t")):
        out.append(dict(leg="square", dims=list(dims), tier=tier))
    return out


def make_da(dims, chunked, boolean=False):
    import xarray as xr

    shape = tuple(SIZES[d] for d in dims)
    n = int(np.prod(shape))
    vals = (np.arange(n, dtype=float) * 1.5 - 4.0).reshape(shape)
    vals.flat[1 % n] = NAN
    if boolean:
        vals = np.nan_to_num(vals) > 0
    da_ = xr.DataArray(vals, dims=dims, name="v", attrs=dict(units="K", note="attr"))
    da_ = da_.assign_coords(x=("x", np.array([10, 20, 30])))
    if "y" in dims:
        da_ = da_.assign_coords(y=("y", np.array(["a", "b"])))
    if chunked:
        da_ = da_.chunk({d: 1 if d == "x" else -1 for d in dims})
    return da_


def add_grouper(obj, grouper):
    import xarray as xr

    if grouper == "coord1d":
        return obj.assign_coords(lab=("x", np.array([1, 0, 1]))), "lab"
    if grouper == "coord1d_nan":
        return obj.assign_coords(lab=("x", np.array([1.0, NAN, 0.0]))), "lab"
    if grouper == "ext":
        return obj, xr.DataArray(np.array([2, 2, 1]), dims="x", name="g")
    if grouper == "coord2d":
        return obj.assign_coords(lab=(("x", "y"), np.array([[0, 1], [1, 0], [0, 0]]))), "lab"
    raise KeyError(grouper)


def compare(res, case, tags, got, want, size, original=None, reduced_dims=("x",)):
    import xarray as xr

    probs = []
    try:
        if isinstance(want, xr.Dataset):
            if set(got.data_vars) != set(want.data_vars):
                probs.append(f"variables {sorted(got.data_vars)} != {sorted(want.data_vars)}")
            pairs = [(k, got[k], want[k]) for k in want.data_vars if k in got.data_vars and (original is None or any(d in original[k].dims for d in reduced_dims))]
            # variables lacking the reduced dimension pass through unchanged (the property's own clause; native xarray reduces them)
            for k in want.data_vars:
                if k in got.data_vars and original is not None and not any(d in original[k].dims for d in reduced_dims):
                    g, o = got[k], original[k]
                    try:
                        same = np.array_equal(np.broadcast_to(np.asarray(o.values), np.asarray(g.transpose(..., *o.dims).values).shape),
                                              np.asarray(g.transpose(..., *o.dims).values), equal_nan=True)
                    except Exception:
                        same = False
                    if not same:
                        probs.append(f"{k}: pass-through variable changed: {np.asarray(g.values).tolist()} != {np.asarray(o.values).tolist()}")
                    if case.get("keep_attrs") and dict(g.attrs) != dict(o.attrs):
                        probs.append(f"{k}: attrs of pass-through variable {dict(g.attrs)} != {dict(o.attrs)}")
        else:
            pairs = [("v", got, want)]
            if got.name != want.name:
                probs.append(f"name {got.name!r} != {want.name!r}")
        for k, g, w in pairs:
            if tuple(g.dims) != tuple(w.dims):
                probs.append(f"{k}: dims {g.dims} != {w.dims}")
                continue
            gv, wv = np.asarray(g.values), np.asarray(w.values)
            if gv.shape != wv.shape:
                probs.append(f"{k}: shape {gv.shape} != {wv.shape}")
                continue
            if gv.dtype.kind in "fiub" and wv.dtype.kind in "fiub":
                if not np.allclose(gv.astype(float), wv.astype(float), rtol=1e-9, atol=1e-12, equal_nan=True):
                    probs.append(f"{k}: values differ: {gv.tolist()} != {wv.tolist()}")
            elif not np.array_equal(gv, wv):
                probs.append(f"{k}: values differ")
            if dict(g.attrs) != dict(w.attrs):
                probs.append(f"{k}: attrs {dict(g.attrs)} != {dict(w.attrs)}")
            for c in w.coords:
                if c not in g.coords:
                    probs.append(f"{k}: coordinate {c!r} missing")
                elif tuple(g.coords[c].dims) != tuple(w.coords[c].dims) or not np.array_equal(np.asarray(g.coords[c].values), np.asarray(w.coords[c].values)):
                    probs.append(f"{k}: coordinate {c!r} differs: {np.asarray(g.coords[c].values).tolist()} != {np.asarray(w.coords[c].values).tolist()}")
            extra = set(g.coords) - set(w.coords)
            if extra:
                probs.append(f"{k}: extra coordinates {sorted(map(str, extra))}")
    except Exception as e:
        probs.append(f"comparison failed: {type(e).__name__}: {e}")
    if probs:
        res.outcomes["mismatch"] += 1
        res.violate("xarray-differs", case, dict(problems=probs[:4]), "identical to obj.groupby(...).<func>() with use_flox=False",
                    tags=dict(tags, kind=probs[0].split(":")[1].strip().split(" ")[0] if ":" in probs[0] else "structure"), size=size)
        return False
    res.outcomes["ok"] += 1
    return True


def native(obj, by, func, skipna, min_count, keep_attrs, dim=None):
    import xarray as xr

    kw = {}
    if func in QS:
        kw["q"] = QS[func]
        func = "quantile"
    if func not in ("count", "first", "last", "any", "all"):
        kw["skipna"] = skipna
    elif func in ("first", "last") and skipna is not None:
        kw["skipna"] = skipna
    if min_count is not None:
        kw["min_count"] = min_count
    with xr.set_options(use_flox=False), warnings.catch_warnings():
        warnings.simplefilter("ignore")
        gb = obj.groupby(by)
        if dim is not None:
            kw["dim"] = dim
        return getattr(gb, func)(keep_attrs=keep_attrs, **kw)


def run_one(res, obj, by, func, skipna, min_count, keep_attrs, case, tags, size, dim=None):
    from flox.xarray import xarray_reduce

    res.evaluations += 1
    res.states += 1
    res.transitions += 2
    try:
        want = native(obj, by, func, skipna, min_count, keep_attrs, dim=dim)
        if hasattr(want, "compute"):
            want = want.compute()
    except Exception as e:
        res.outcomes[f"native-refuses:{type(e).__name__}"] += 1
        return
    kw = dict(func=func, skipna=skipna, keep_attrs=keep_attrs)
    if func in QS:
        kw.update(func="quantile", q=QS[func])
    if dim is not None:
        kw["dim"] = dim
    if min_count is not None:
        kw["min_count"] = min_count
    try:
        with warnings.catch_warnings(), np.errstate(all="ignore"):
            warnings.simplefilter("ignore")
            got = xarray_reduce(obj, by, **kw)
            if hasattr(got, "compute"):
                got = got.compute(scheduler="sync")
    except e1.REFUSALS as e:
        res.outcomes[f"refused:{type(e).__name__}"] += 1
        return
    except Exception as e:
        res.outcomes[f"error:{type(e).__name__}"] += 1
        res.violate("xarray-error", case, dict(exc=type(e).__name__, msg=str(e)[:200]), "a result like native xarray's", tags=dict(tags, kind="error", exc=type(e).__name__), size=size)
        return
    res.compared += 1
    compare(res, case, tags, got, want, size, original=obj if case.get("leg") == "dataset" else None,
            reduced_dims=tuple(case["reduced_dims"]) if case.get("reduced_dims") else (("x", "y") if case.get("grouper") == "coord2d" else ("x",)))


def run_shard(shard):
    import xarray as xr

    e1.reset_flox_caches()
    res = Result()
    if shard["leg"] == "dataarray":
        dims, grouper = tuple(shard["dims"]), shard["grouper"]
        nontriv = dims[-1] != "x" or grouper != "coord1d"
        for chunked in (False, True):
            for func in FUNCS:
                boolean = func in ("any", "all")
                base = make_da(dims, chunked, boolean=boolean)
                obj, by = add_grouper(base, grouper)
                for skipna in (None, True, False):
                    if func in ("count", "any", "all") and skipna is not None:
                        continue
                    for min_count in ((None, 1) if func in ("sum", "prod") else (None,)):
                        for keep_attrs in ((True, False) if func == "sum" else (True,)):
                            case = dict(leg="dataarray", dims=list(dims), grouper=grouper, func=func, skipna=skipna, min_count=min_count,
                                        keep_attrs=keep_attrs, chunked=chunked)
                            tags = dict(leg2="dataarray", grouper=grouper, func=func, skipna=str(skipna), chunked=chunked, ndim=len(dims))
                            run_one(res, obj, by, func, skipna, min_count, keep_attrs, case, tags, len(dims) * 10)
                            res.nontrivial += 1 if nontriv else 0
                    # explicit `dim`: the grouped dim, a dim along which the groups do not vary (plain-reduction shortcut),
                    # both, and Ellipsis
                    if func in ("sum", "mean", "max", "count") and skipna in (None, False):
                        gdims = ("x", "y") if grouper == "coord2d" else ("x",)
                        others = [d for d in dims if d not in gdims]
                        variants = [gdims[0] if len(gdims) == 1 else gdims, ...]
                        if others:
                            variants += [others[0], tuple(gdims) + (others[0],)]
                        for dim in variants:
                            dname = "..." if dim is ... else (list(dim) if isinstance(dim, tuple) else dim)
                            case = dict(leg="dataarray", dims=list(dims), grouper=grouper, func=func, skipna=skipna, min_count=None,
                                        keep_attrs=True, chunked=chunked, dim=dname)
                            tags = dict(leg2="dataarray-dim", grouper=grouper, func=func, skipna=str(skipna), chunked=chunked, ndim=len(dims),
                                        dim_kind="ellipsis" if dim is ... else ("grouped" if dim == variants[0] else ("other" if dim == others[0] else "both")))
                            run_one(res, obj, by, func, skipna, None, True, case, tags, len(dims) * 10 + 1, dim=dim)
                            res.nontrivial += 1
        res.sample(dict(leg="dataarray", dims=list(dims), grouper=grouper, funcs=FUNCS, skipna=[None, True, False], chunked=[False, True]))
    elif shard["leg"] == "multi":
        run_multi(res)
    elif shard["leg"] == "square":
        run_square(res, tuple(shard["dims"]))
    else:
        for chunked in (False, True):
            a = make_da(("x", "y"), chunked)
            ds = xr.Dataset(dict(a=a.rename("a"), b=make_da(("x",), False).rename("b"), c=xr.DataArray(np.array([1.0, 2.0]), dims="y", attrs=dict(k="c")),
                                 d=xr.DataArray(np.array([5.0, NAN]), dims="t")), attrs=dict(title="ds"))
            for grouper in ("coord1d", "coord1d_nan", "ext", "coord2d"):
                obj, by = add_grouper(ds, grouper)
                for func in ("sum", "mean", "count", "max", "var", "first"):
                    for skipna in (None, False) if func not in ("count",) else (None,):
                        for keep_attrs in (True, False):
                            case = dict(leg="dataset", grouper=grouper, func=func, skipna=skipna, keep_attrs=keep_attrs, chunked=chunked)
                            tags = dict(leg2="dataset", grouper=grouper, func=func, skipna=str(skipna), chunked=chunked)
                            run_one(res, obj, by, func, skipna, None, keep_attrs, case, tags, 30)
                            res.nontrivial += 1
            # explicit dim naming a dimension the grouper lacks: a variable without the grouped dim but with that other dim (c(y))
            # is still reduced along it; only variables with none of the reduced dims (d(t)) pass through
            for grouper in ("coord1d", "ext"):
                obj, by = add_grouper(ds, grouper)
                for func in ("mean", "max", "min", "sum", "count"):
                    for dim in (("x", "y"), ["y", "x"], ...):
                        if dim is ... and chunked:
                            continue
                        rd = ["x", "y"] if dim is not ... else ["x", "y", "t"]
                        case = dict(leg="dataset", grouper=grouper, func=func, skipna=None, keep_attrs=True, chunked=chunked, dim=str(dim), reduced_dims=rd)
                        tags = dict(leg2="dataset-dim", grouper=grouper, func=func, skipna="None", chunked=chunked, dim=str(dim))
                        run_one(res, obj, by, func, None, None, True, case, tags, 30, dim=dim)
                        res.nontrivial += 1
        res.sample(dict(leg="dataset", variables=dict(a=["x", "y"], b=["x"], c=["y"], d=["t"]), groupers=["coord1d", "coord1d_nan", "ext"], dims=["None", "(x,y)", "[y,x]", "..."]))
    return res


def run_square(res, dims):
    """A square (2 x 2) two-dimensional grouper stored as (x, y) or as (y, x), on objects of every dim order, reduced over
    x, y, both (in either order) or by default: shapes cannot tell the grouper's dims apart here, only their names can.
    Oracles: native xarray wherever it accepts the call; always the values of a plain NumPy model on the named dims."""
    import xarray as xr
    from flox.xarray import xarray_reduce

    shape = tuple(2 for _ in dims)
    n = int(np.prod(shape))
    vals = (np.arange(n, dtype=float) ** 2 * 1.5 - 4.0).reshape(shape)
    vals.flat[1] = NAN
    lab_xy = np.array([[0, 1], [0, 0]])  # not symmetric
    for chunked in (False, True):
        base = xr.DataArray(vals, dims=dims, name="v").assign_coords(x=("x", np.array([10, 20])), y=("y", np.array(["a", "b"])))
        if chunked:
            base = base.chunk({d: 1 if d == "x" else -1 for d in dims})
        for gorder in (("x", "y"), ("y", "x")):
            obj = base.assign_coords(lab=(gorder, lab_xy if gorder == ("x", "y") else lab_xy.T))
            labb = obj["lab"].broadcast_like(base).transpose(*dims).values
            for func in ("sum", "max", "count"):
                for dim in (None, "x", "y", ("x", "y"), ("y", "x"), ...):
                    dname = "..." if dim is ... else (list(dim) if isinstance(dim, tuple) else dim)
                    case = dict(leg="square", dims=list(dims), grouper_dims=list(gorder), func=func, dim=dname, chunked=chunked)
                    tags = dict(leg2="square", func=func, chunked=chunked, dim=str(dname), grouper_dims="".join(gorder))
                    # native xarray where it accepts the call
                    run_one(res, obj, "lab", func, None, None, True, case, tags, 40, dim=dim)
                    res.nontrivial += 1
                    # NumPy model on the named dims
                    reduced = ("x", "y") if dim in (None, ...) else ((dim,) if isinstance(dim, str) else tuple(dim))
                    if dim is ...:
                        reduced = tuple(dims)
                    kept = [d for d in dims if d not in reduced]
                    try:
                        with warnings.catch_warnings(), np.errstate(all="ignore"):
                            warnings.simplefilter("ignore")
                            kw = dict(func=func)
                            if dim is not None:
                                kw["dim"] = dim
                            got = xarray_reduce(obj, "lab", **kw)
                            if hasattr(got, "compute"):
                                got = got.compute(scheduler="sync")
                    except e1.REFUSALS:
                        continue
                    except Exception:
                        continue  # reported by run_one above
                    res.compared += 1
                    probs = []
                    if set(got.dims) != set(kept) | {"lab"}:
                        probs.append(f"dims {got.dims} are not {kept} + ['lab']")
                    else:
                        g = got.transpose(*kept, "lab")
                        for idx in np.ndindex(*[2 for _ in kept]):
                            sel = [slice(None)] * len(dims)
                            for d, i in zip(kept, idx):
                                sel[dims.index(d)] = i
                            v = vals[tuple(sel)].reshape(-1)
                            lb = labb[tuple(sel)].reshape(-1)
                            for j, lab in enumerate(np.asarray(g["lab"].values).tolist()):
                                m = v[lb == lab]
                                m = m[~np.isnan(m)]
                                if func != "count" and len(m) == 0:
                                    continue  # fill conventions are C05's
                                want = dict(sum=np.sum, max=np.max, count=len)[func](m)
                                have = float(np.asarray(g.values)[idx + (j,)])
                                if not np.isclose(have, float(want)):
                                    probs.append(f"kept index {dict(zip(kept, idx))}, label {lab}: {have} != {float(want)} (members {m.tolist()})")
                    if probs:
                        res.outcomes["mismatch"] += 1
                        res.violate("xarray-square-differs", case, dict(problems=probs[:3]), "the reduction of the elements carrying each label, slice by slice over the kept dims",
                                    tags=dict(tags, kind="model"), size=41)
                    else:
                        res.outcomes["ok-model"] += 1
    res.sample(dict(leg="square", dims=list(dims), grouper="2x2 labels [[0,1],[0,0]] stored as (x,y) and as (y,x)", dim=["None", "x", "y", "(x,y)", "(y,x)", "..."]))


def run_multi(res):
    """Several groupers: native xarray lays the result out differently, so the oracle is the tuple-key model via groupby_reduce on
    the underlying arrays (tied to the tuple-key semantics by C07) plus the structural rules: kept dims first in object order,
    one new dim per grouper in the order given, coordinates = the labels."""
    import flox
    import xarray as xr
    from flox.xarray import xarray_reduce

    for dims in (("x", "y"), ("y", "x"), ("t", "x", "y"), ("x", "t", "y")):
        for chunked in (False, True):
            base = make_da(dims, chunked)
            obj = base.assign_coords(labx=("x", np.array([1, 0, 1])), laby=("y", np.array([5.0, NAN])))
            for groupers in (("labx", "laby"), ("laby", "labx")):
                for func in ("sum", "mean", "count", "max"):
                    case = dict(leg="multi", dims=list(dims), groupers=list(groupers), func=func, chunked=chunked)
                    tags = dict(leg2="multi", func=func, chunked=chunked)
                    res.evaluations += 1
                    res.states += 1
                    res.transitions += 2
                    try:
                        with warnings.catch_warnings(), np.errstate(all="ignore"):
                            warnings.simplefilter("ignore")
                            got = xarray_reduce(obj, *groupers, func=func)
                            if hasattr(got, "compute"):
                                got = got.compute(scheduler="sync")
                    except e1.REFUSALS as e:
                        res.outcomes[f"refused:{type(e).__name__}"] += 1
                        continue
                    except Exception as e:
                        res.outcomes[f"error:{type(e).__name__}"] += 1
                        res.violate("xarray-error", case, dict(exc=type(e).__name__, msg=str(e)[:200]), "a result", tags=dict(tags, kind="error"), size=30)
                        continue
                    # reference on the underlying arrays: move x, y last, broadcast the two label arrays over (x, y)
                    arr = base.compute().transpose(..., "x", "y").values if chunked else base.transpose(..., "x", "y").values
                    bx = np.broadcast_to(np.array([1, 0, 1])[:, None], (3, 2))
                    by = np.broadcast_to(np.array([5.0, NAN])[None, :], (3, 2))
                    first, second = (bx, by) if groupers[0] == "labx" else (by, bx)
                    nanfunc = {"sum": "nansum", "mean": "nanmean", "max": "nanmax", "count": "count"}[func]
                    ref, g1, g2 = flox.groupby_reduce(arr, first, second, func=nanfunc)
                    res.compared += 1
                    res.nontrivial += 1
                    want_dims = tuple(d for d in dims if d not in ("x", "y")) + tuple(groupers)
                    probs = []
                    if tuple(got.dims) != want_dims:
                        probs.append(f"dims {got.dims} != {want_dims}")
                    elif not np.allclose(np.asarray(got.values, dtype=float), np.asarray(ref, dtype=float), equal_nan=True):
                        probs.append(f"values {np.asarray(got.values).tolist()} != {np.asarray(ref).tolist()}")
                    else:
                        for name, lab in zip(groupers, (g1, g2)):
                            if name not in got.coords or not np.array_equal(np.asarray(got.coords[name].values, dtype=float), np.asarray(lab, dtype=float)):
                                probs.append(f"coordinate {name} != {np.asarray(lab).tolist()}")
                    if probs:
                        res.outcomes["mismatch"] += 1
                        res.violate("xarray-multi-differs", case, dict(problems=probs), "tuple-key result of groupby_reduce on the underlying arrays",
                                    tags=dict(tags, kind="multi"), size=30)
                    else:
                        res.outcomes["ok"] += 1
    res.sample(dict(leg="multi", groupers=["labx (on x)", "laby (on y, with a missing label)"], dims=[["x", "y"], ["t", "x", "y"]]))


def replay(payload):
    import xarray as xr

    res = Result()
    c = payload["case"]
    if c["leg"] == "dataarray":
        base = make_da(tuple(c["dims"]), c["chunked"], boolean=c["func"] in ("any", "all"))
        obj, by = add_grouper(base, c["grouper"])
        dim = c.get("dim")
        dim = ... if dim == "..." else (tuple(dim) if isinstance(dim, list) else dim)
        run_one(res, obj, by, c["func"], c["skipna"], c.get("min_count"), c["keep_attrs"], c, dict(kind="replay"), 10, dim=dim)
    elif c["leg"] == "multi":
        run_multi(res)
    else:
        return run_shard(dict(leg="dataset", tier="quick"))
    return res
