"""C14  no side effects; results independent of call history and of co-computed results.

E5 history explorer: BFS over sequences of API calls taken from an alphabet chosen to touch every piece of shared
state (registry blueprints specialised per call, a reused user Aggregation, the cachey memoisation of the rechunk
helper, the lru_cache of the cohort tree, xarray helpers, scans).  Every shard starts in a FRESH interpreter.  After
every call: the caller-owned argument objects and the registry are bit-identical, and the result equals the result
the same call gives as the first call of a fresh interpreter.  States are deduplicated by a snapshot of flox's
process-wide mutable state.
Co-computation leg: pairs / triples of lazy results that differ in exactly one ingredient are merged into one graph:
no key may be defined by two different tasks, and dask.compute(r1, r2) in both orders equals separate computes."""

from __future__ import annotations

import collections
import itertools
import multiprocessing as mp

import numpy as np

from mc import e1, graphx
from mc.runner import Result

PROPERTY = "C14"
LEVEL = "model_checking"
TECHNIQUE = "explicit-state exploration of API-call histories from fresh interpreters with state snapshots; exhaustive pairs/triples of co-computed lazy results"
ENGINE = "E5"
FRESH_PROCESS_PER_SHARD = True
RULE = (
    "history leg: state = snapshot of flox's process-wide mutable state (structural dump of the aggregation registry, keys of "
    "flox.cache.cache, size of the cohort-tree lru_cache, digests of the caller-owned objects passed to every call) reached by a "
    "sequence of API calls; transition = one real API call from a 29-call alphabet; BFS over all histories of length <= 2 (quick) / 3 "
    "(thorough) from a fresh interpreter per first call; invariants on every transition: arguments and registry unchanged, result "
    "== result of that call made first in a fresh interpreter. co-computation leg: state = (base configuration, varied ingredient); "
    "transition = build both lazy results, merge, compute together in both orders and separately. "
    "Non-trivial = a history of length >= 2 / a pair that differs in exactly one ingredient."
)
ASSUMPTIONS = [
    "the 29-call alphabet and depth 2 (quick) / 3 (thorough) bound the histories; state that none of these calls touches is not observed",
    "fresh-interpreter references are computed once per run in throw-away processes",
    "co-computed results: pairs and triples from 4 base configurations x 14 varied ingredients",
]

NAN = float("nan")


# --------------------------------------------------------------------------------------------- shared, caller-owned objects

_SHARED = {}


def shared():
    """Objects a caller would keep and pass to several calls."""
    import pandas as pd
    import flox

    if not _SHARED:
        _SHARED["values"] = np.array([[1.0, -2.0, NAN, 3.5, 0.0, 7.0], [2.0, 2.0, -1.0, NAN, 4.0, -3.0]])
        _SHARED["ints"] = np.array([[1, -2, 3, 3, 0, 7], [2, 2, -1, 5, 4, -3]])
        _SHARED["labels"] = np.array([0.0, 1.0, 0.0, NAN, 1.0, 2.0])
        _SHARED["labels_seqA"] = np.array([0, 0, 0, 1, 1, 2])
        _SHARED["labels_seqB"] = np.array([0, 1, 1, 1, 1, 2])
        _SHARED["expected_index"] = pd.Index([2.0, 0.0, 1.0, 5.0])
        _SHARED["expected_list"] = [0.0, 1.0, 2.0, 3.0]
        _SHARED["agg"] = flox.Aggregation("u_sumsq", numpy="nansum_of_squares", chunk="nansum_of_squares", combine="sum", fill_value=0)
        _SHARED["finalize_kwargs"] = dict(q=[0.5, 0.75])
    return _SHARED


def shared_digest():
    s = shared()
    out = {k: graphx.digest(v) for k, v in s.items() if k != "agg"}
    out["agg"] = graphx.digest(_dump_obj(s["agg"]))
    return out


def _sanit(v, depth=0):
    if depth > 6:
        return "<deep>"
    if callable(v) and not isinstance(v, type):
        inner = getattr(v, "func", None)
        if inner is not None:  # functools.partial
            return ("partial", _sanit(inner, depth + 1), _sanit(getattr(v, "keywords", {}), depth + 1))
        return f"{getattr(v, '__module__', '?')}.{getattr(v, '__qualname__', repr(v))}"
    if isinstance(v, dict):
        return {str(k): _sanit(x, depth + 1) for k, x in v.items()}
    if isinstance(v, (list, tuple)):
        return [_sanit(x, depth + 1) for x in v]
    if isinstance(v, (np.ndarray, np.generic, int, float, str, bool, type(None))):
        return v
    if isinstance(v, (np.dtype, type)):
        return str(v)
    return repr(v)


def _dump_obj(o):
    return {k: _sanit(v) for k, v in sorted(vars(o).items()) if not k.startswith("__")}


def registry_digest():
    try:
        from flox.aggregations import AGGREGATIONS
    except Exception:
        return "n/a"
    return graphx.digest({name: _dump_obj(a) for name, a in sorted(AGGREGATIONS.items())})


def cache_state():
    out = []
    try:
        from flox import cache as fc

        data = getattr(fc.cache, "data", None)
        out.append(sorted(map(str, data.keys())) if data is not None else "n/a")
    except Exception:
        out.append("n/a")
    try:
        from flox.dask_array_ops import get_parts

        out.append(get_parts.cache_info().currsize)
    except Exception:
        out.append("n/a")
    return out


# --------------------------------------------------------------------------------------------- the alphabet


def _dask(a, chunks):
    import dask.array as da

    return da.from_array(a, chunks=chunks)


def _c(x):
    import dask

    return dask.compute(x, scheduler="sync")[0]


def alphabet():
    import flox
    from flox.xarray import xarray_reduce

    s = shared()
    V, I, L = s["values"], s["ints"], s["labels"]

    def red(arr, by, **kw):
        r, *g = flox.groupby_reduce(arr, by, **kw)
        return [np.asarray(_c(r))] + [np.asarray(_c(x)) for x in g]

    def xr_ds():
        import xarray as xr

        return xr.Dataset(dict(a=(("y", "x"), _dask(V, ((1, 1), (2, 2, 2)))), b=(("x",), V[0]), c=(("y",), np.array([1.0, 2.0]))),
                          coords=dict(lab=("x", s["labels_seqA"])))

    def xr_reduce():
        out = xarray_reduce(xr_ds(), "lab", func="sum", expected_groups=np.array([0, 1, 2]))
        return [np.asarray(out["a"].compute().values), np.asarray(out["b"].values), np.asarray(out["c"].values)]

    def xr_rechunk():
        from flox.xarray import rechunk_for_blockwise as xrb
        import xarray as xr

        out = xrb(xr_ds(), "x", xr.DataArray(s["labels_seqB"], dims="x"))
        return [list(out["a"].chunks[-1])]

    A = collections.OrderedDict()
    A["sum-eager-expected"] = lambda: red(V, L, func="sum", expected_groups=s["expected_list"], fill_value=-1)
    A["sum-eager-mincount2"] = lambda: red(V, L, func="sum", min_count=2, fill_value=NAN)
    A["nanmax-eager-fill0-index"] = lambda: red(V, L, func="nanmax", expected_groups=s["expected_index"], fill_value=0)
    A["mean-dask-mapreduce"] = lambda: red(_dask(V, ((1, 1), (2, 2, 2))), L, func="mean", method="map-reduce")
    A["var-dask-ddof0"] = lambda: red(_dask(V, ((1, 1), (2, 2, 2))), L, func="nanvar", finalize_kwargs=dict(ddof=0))
    A["var-dask-ddof1"] = lambda: red(_dask(V, ((1, 1), (2, 2, 2))), L, func="nanvar", finalize_kwargs=dict(ddof=1))
    A["nanargmax-cohorts"] = lambda: red(_dask(V, ((2,), (1,) * 6)), L, func="nanargmax", method="cohorts")
    A["count-dask-dtype"] = lambda: red(_dask(V, ((2,), (3, 3))), L, func="count", dtype="float32")
    A["useragg-eager-float"] = lambda: red(V, L, func=s["agg"], expected_groups=s["expected_list"], fill_value=-1)
    A["useragg-dask-int"] = lambda: red(_dask(I, ((2,), (2, 2, 2))), L, func=s["agg"], expected_groups=s["expected_list"], fill_value=-5)
    A["quantile-scalar"] = lambda: red(V, s["labels_seqA"], func="nanquantile", finalize_kwargs=dict(q=0.25))
    A["quantile-vector"] = lambda: red(V, s["labels_seqA"], func="nanquantile", finalize_kwargs=s["finalize_kwargs"])
    A["median-single-group"] = lambda: red(V, np.zeros(6), func="nanmedian")
    A["quantile-blockwise-one-group-per-block"] = lambda: red(_dask(V, ((2,), (2, 2, 2))), np.array([0, 0, 1, 1, 2, 2]), func="quantile", method="blockwise",
                                                               finalize_kwargs=dict(q=0.5))
    A["first-after-median"] = lambda: red(V, np.zeros(6), func="first")
    A["cohorts-sum-222"] = lambda: red(_dask(V, ((2,), (2, 2, 2))), L, func="nansum", method="cohorts")
    A["cohorts-sum-33"] = lambda: red(_dask(V, ((2,), (3, 3))), L, func="nansum", method="cohorts")
    A["cohorts-sum-111111-split2"] = lambda: _with_split(2, lambda: red(_dask(V, ((2,), (1,) * 6)), L, func="nansum", method="cohorts"))
    A["rechunk-blockwise-A"] = lambda: [list(flox.rechunk_for_blockwise(_dask(V, ((2,), (2, 2, 2))), -1, s["labels_seqA"]).chunks[-1])]
    A["rechunk-blockwise-B"] = lambda: [list(flox.rechunk_for_blockwise(_dask(V, ((2,), (2, 2, 2))), -1, s["labels_seqB"]).chunks[-1])]
    A["rechunk-cohorts"] = lambda: [list(flox.rechunk_for_cohorts(_dask(V, ((2,), (3, 3))), -1, s["labels_seqA"] + 1, force_new_chunk_at=[2], chunksize=2).chunks[-1])]
    A["blockwise-sum-seqA"] = lambda: red(_dask(V, ((2,), (2, 2, 2))), s["labels_seqA"], func="sum", method="blockwise")
    A["blockwise-sum-seqB"] = lambda: red(_dask(V, ((2,), (2, 2, 2))), s["labels_seqB"], func="sum", method="blockwise")
    A["xarray-reduce-dataset"] = xr_reduce
    A["xarray-rechunk"] = xr_rechunk
    A["scan-nancumsum-dask"] = lambda: [np.asarray(_c(flox.groupby_scan(_dask(V, ((2,), (2, 2, 2))), s["labels_seqB"], func="nancumsum")))]
    A["scan-ffill-eager"] = lambda: [np.asarray(flox.groupby_scan(V, L, func="ffill"))]
    A["sum-sorted-index"] = lambda: red(_dask(V, ((2,), (3, 3))), L, func="sum", expected_groups=s["expected_index"], sort=True, fill_value=-9)
    A["nanfirst-int-dask"] = lambda: red(_dask(I, ((2,), (2, 2, 2))), L, func="nanfirst")
    return A


def _with_split(se, fn):
    import dask

    with dask.config.set(split_every=se):
        return fn()


def fresh_digest(name):
    """Executed in a throw-away interpreter: the result of `name` as the very first flox call."""
    from mc import runner

    runner._worker_init()
    out = alphabet()[name]()
    return name, graphx.digest(out)


# --------------------------------------------------------------------------------------------- shards


def bounds(tier, seed):
    return dict(depth=2 if tier == "quick" else 3, alphabet=len(alphabet_names()))


def alphabet_names():
    return ["sum-eager-expected", "sum-eager-mincount2", "nanmax-eager-fill0-index", "mean-dask-mapreduce", "var-dask-ddof0", "var-dask-ddof1",
            "nanargmax-cohorts", "count-dask-dtype", "useragg-eager-float", "useragg-dask-int", "quantile-scalar", "quantile-vector",
            "median-single-group", "quantile-blockwise-one-group-per-block", "first-after-median", "cohorts-sum-222", "cohorts-sum-33", "cohorts-sum-111111-split2", "rechunk-blockwise-A", "rechunk-blockwise-B", "rechunk-cohorts",
            "blockwise-sum-seqA", "blockwise-sum-seqB", "xarray-reduce-dataset", "xarray-rechunk", "scan-nancumsum-dask", "scan-ffill-eager",
            "sum-sorted-index", "nanfirst-int-dask"]


def shards(tier, seed):
    names = alphabet_names()
    ctx = mp.get_context("spawn")
    with ctx.Pool(min(16, len(names)), maxtasksperchild=1) as pool:
        fresh = dict(pool.map(fresh_digest, names, chunksize=1))
    if tier == "quick":
        prefixes = [[a] for a in names]
    else:
        prefixes = [[a, b] for a in names for b in names]
    out = [dict(leg="history", prefix=p, fresh=fresh) for p in prefixes]
    for base in range(len(BASES)):
        out.append(dict(leg="cocompute", base=base, tier=tier))
    for engine in ("numpy", "flox", "numba", "numbagg"):
        for dtype in ARG_DTYPES:
            out.append(dict(leg="args", engine=engine, dtype=dtype, tier=tier))
    return out


# --------------------------------------------------------------------------------------------- history leg


def run_history(res, shard):
    A = alphabet()
    names = list(A)
    fresh = shard["fresh"]
    reg0 = registry_digest()
    arg0 = shared_digest()
    seen_states = set()

    def step(history, name):
        try:
            out = A[name]()
            dg = graphx.digest(out)
        except Exception as e:
            out, dg = None, f"EXC:{type(e).__name__}:{str(e)[:120]}"
        res.evaluations += 1
        res.transitions += 1
        res.compared += 1
        hist = [h for h in history if h != "..."] + [name]
        case = dict(history=hist)
        tags = dict(leg2="history", call=name, depth=len(hist))
        if dg != fresh[name]:
            res.outcomes["history-dependent"] += 1
            res.violate("history-result", case, dict(result=out if out is not None else dg), dict(fresh_interpreter_digest=fresh[name]),
                        tags=dict(tags, kind="result", previous=history[-1] if history else None), size=len(hist))
            return False
        now = shared_digest()
        if now != arg0:
            res.outcomes["argument-mutated"] += 1
            res.violate("argument-mutated", case, dict(changed=[k for k in arg0 if arg0[k] != now[k]]), "arguments are never modified",
                        tags=dict(tags, kind="argument"), size=len(hist))
            return False
        if registry_digest() != reg0:
            res.outcomes["registry-mutated"] += 1
            res.violate("registry-mutated", case, "registry dump changed", "the registry of aggregations is never modified",
                        tags=dict(tags, kind="registry"), size=len(hist))
            return False
        res.outcomes["ok"] += 1
        snap = graphx.digest([registry_digest(), cache_state(), now])
        if snap not in seen_states:
            seen_states.add(snap)
            res.states += 1
        if len(hist) >= 2:
            res.nontrivial += 1
        return True

    prefix = shard["prefix"]
    hist = []
    for name in prefix:
        if not step(hist, name):
            return
        hist = hist + [name]
    # A process cannot be rolled back, so the continuation of a prefix is explored as a walk: every remaining call is made
    # once, in an order rotated by the prefix (so that over all shards every ordered pair of calls occurs in both orders), and
    # each is checked against its fresh-interpreter result.  The invariants checked after every call (arguments, registry,
    # result) are exactly what makes the state after a call equivalent to the state before it.
    start = names.index(prefix[-1]) + 1
    order = names[start:] + names[:start]
    if (names.index(prefix[0]) + len(prefix)) % 2:
        order = order[::-1]
    for b in order:
        if not step(hist + ["..."] if len(hist) > len(prefix) else hist, b):
            return
        hist = hist + [b]
    res.sample(dict(leg="history", prefix=prefix, walk=order[:4] + ["..."], calls=len(hist), distinct_state_snapshots=len(seen_states)))


# --------------------------------------------------------------------------------------------- argument leg

ARG_DTYPES = ["float64", "float32", "int64", "bool"]
ARG_LABELS = {
    "sorted": [0, 0, 1, 1, 2, 2],
    "unsorted": [1, 0, 1, 2, 0, 2],
    "float-nan-sorted": [0.0, 0.0, 1.0, 1.0, NAN, NAN],
    "float-nan": [1.0, NAN, 0.0, 1.0, 0.0, NAN],
}
ARG_SCANS = ["nancumsum", "ffill", "bfill"]


def arg_layouts(dtype):
    base = {"float64": [[1.0, -2.0, NAN, 3.5, 0.5, 7.0], [2.0, 2.0, -1.0, NAN, 4.0, -3.0]],
            "float32": [[1.0, -2.0, NAN, 3.5, 0.5, 7.0], [2.0, 2.0, -1.0, NAN, 4.0, -3.0]],
            "int64": [[1, -2, 3, 3, 0, 7], [2, 2, -1, 5, 4, -3]],
            "bool": [[True, False, True, True, False, False], [False, False, True, False, True, True]]}[dtype]
    A = np.array(base, dtype=dtype)
    yield "2d-C", A.copy()
    yield "1d", A[0].copy()
    yield "2d-F", np.asfortranarray(A)          # not C-contiguous: reshapes copy
    yield "2d-view", np.concatenate([A, A], axis=0)[::2]  # a strided view of a larger buffer


def run_args(res, shard):
    """Every documented reduction and scan, eager and chunked, on writable in-memory arrays of several memory layouts: the
    bytes of the value array, of the label array and of expected_groups are the same after the call (and its compute)."""
    from mc import e1, space

    e1.CHECK_INPUTS = True
    engine, dtype = shard["engine"], shard["dtype"]
    quick = shard["tier"] == "quick"
    funcs = [f for f in space.REDUCIBLE + space.ORDER_STATS
             if not (f in ("any", "all") and dtype != "bool") and not (f in space.ORDER_STATS and dtype == "bool")]
    for lname, lab in ARG_LABELS.items():
        for layout, arr in arg_layouts(dtype):
            pristine = arr.copy()
            by = np.array(lab)
            by0 = by.copy()
            expected = np.array([0, 1, 2], dtype=by.dtype)
            exp0 = expected.copy()
            variants = [("eager", None, None)]
            if arr.ndim == 2 and (not quick or layout == "2d-C"):
                variants += [("dask", "map-reduce", (3, 3)), ("dask", "cohorts", (2, 2, 2))]
                if lname in ("sorted", "float-nan-sorted"):
                    variants.append(("dask", "blockwise", (2, 2, 2)))
            import pandas as pd

            # a RangeIndex shorter than the largest label: codes beyond it are rewritten to -1 - in a copy, never in the caller's labels
            int_labels = by.dtype.kind == "i"
            for func in funcs + ARG_SCANS + ([("range", f) for f in ("sum", "nanmax", "count", "nanargmax", "nanfirst", "nanvar")] if int_labels else []):
                use_range = isinstance(func, tuple)
                if use_range:
                    func = func[1]
                    if func in ("any", "all") or (dtype == "bool" and func == "nanvar"):
                        continue
                for how, method, chunks in variants:
                    if quick and how == "dask" and engine in ("numba",) and func not in ("nanvar", "nanmax", "sum", "nanfirst", "nancumsum", "ffill"):
                        continue
                    a = arr if how == "eager" else e1.make_dask(arr, ((arr.shape[0],), chunks))
                    kw = {}
                    if func in ARG_SCANS:
                        if how == "dask" and method != "map-reduce":
                            continue
                        if engine != "numpy":
                            continue  # scans take no engine argument: explored once
                        out = e1.call_scan(a, by, func=func)
                    else:
                        if func in ("quantile", "nanquantile"):
                            kw["finalize_kwargs"] = dict(q=0.25)
                        if how == "dask":
                            kw["method"] = method
                        byarg = by
                        if use_range and how == "dask" and method == "map-reduce":
                            byarg = e1.make_dask(by, (chunks,))  # the label blocks of the graph are views of the caller's array
                        out = e1.call_reduce(a, byarg, func=func, engine=engine, expected_groups=pd.RangeIndex(2) if use_range else expected, fill_value=0, **kw)
                    res.evaluations += 1
                    res.transitions += 1
                    res.compared += 1
                    res.states += 1
                    res.nontrivial += 1
                    case = dict(leg="args", engine=engine, dtype=dtype, func=func, labels=lname, layout=layout, how=how, method=method, expected="RangeIndex(2)" if use_range else "ndarray")
                    tags = dict(leg2="args", engine=engine, dtype=dtype, func=func, layout=layout, how=how, method=str(method), rangeindex=use_range)
                    changed = []
                    if out.kind == "error" and out.exc == "InputMutated":
                        changed.append(out.msg)
                    if not np.array_equal(arr, pristine, equal_nan=True):
                        changed.append(f"value array now {arr.tolist()!r}")
                        arr[...] = pristine
                    if by.tobytes() != by0.tobytes():
                        changed.append(f"labels now {by.tolist()!r}")
                        by[...] = by0
                    if expected.tobytes() != exp0.tobytes():
                        changed.append(f"expected_groups now {expected.tolist()!r}")
                        expected[...] = exp0
                    if changed:
                        res.outcomes["argument-mutated"] += 1
                        res.violate("argument-mutated", case, dict(changed=changed), "arguments are never modified",
                                    tags=dict(tags, kind="argument"), size=6)
                    else:
                        res.outcomes["unchanged" if out.kind == "ok" else f"unchanged-{out.kind}"] += 1
    res.sample(dict(leg="args", engine=engine, dtype=dtype, funcs=len(funcs) + len(ARG_SCANS), labels=list(ARG_LABELS),
                    layouts=["2d-C", "1d", "2d-F", "2d-view"]))


# --------------------------------------------------------------------------------------------- co-computation leg

BASES = [
    dict(kind="reduce", func="nanvar", method="map-reduce", chunks=(2, 2, 2), expected=True, fill=-1.0, kwargs=dict(finalize_kwargs=dict(ddof=0))),
    dict(kind="reduce", func="nanargmax", method="cohorts", chunks=(1,) * 6, expected=False, fill=None, kwargs={}),
    dict(kind="reduce", func="nanquantile", method="blockwise", chunks=(3, 3), expected=False, fill=None, kwargs=dict(finalize_kwargs=dict(q=0.25)), seq=True),
    dict(kind="scan", func="nancumsum", chunks=(2, 2, 2)),
    dict(kind="reduce", func="sum", method=None, chunks=(2, 2, 2), expected=True, fill=0.0, kwargs={}),
    dict(kind="reduce", func="nanmax", method="map-reduce", chunks=(3,), expected=True, fill=-1.0, kwargs=dict(axis=-1), labels2d=True),
    # members 2**24, 1, 1 of one group inside one block: the sum depends on the dtype the block stage accumulates in
    # (float32 data; float32: 16777216, float64: 16777218), so results that differ only in dtype= must not share their block layer
    dict(kind="reduce", func="sum", method="map-reduce", chunks=(3, 3), expected=False, fill=None, kwargs={}, seq=True, big=True),
]


def variants(base):
    """(name, modified config) - each differs from the base in exactly one ingredient."""
    out = [("values", dict(base, alt_values=True)), ("labels", dict(base, alt_labels=True)),
           ("chunking", dict(base, chunks=((3, 3) if base["chunks"] != (3, 3) else (2, 2, 2)) if not base.get("labels2d") else (1, 2)))]
    if base["kind"] == "scan":
        out += [("func", dict(base, func="ffill")), ("func2", dict(base, func="bfill"))]
        return out
    kw = base["kwargs"]
    if base.get("labels2d"):
        out.append(("axis", dict(base, kwargs=dict(kw, axis=None))))
        out.append(("axis2", dict(base, kwargs=dict(kw, axis=(-2, -1)))))
    if "finalize_kwargs" in kw and "ddof" in kw["finalize_kwargs"]:
        out.append(("ddof", dict(base, kwargs=dict(kw, finalize_kwargs=dict(ddof=1)))))
    if "finalize_kwargs" in kw and "q" in kw["finalize_kwargs"]:
        out.append(("q", dict(base, kwargs=dict(kw, finalize_kwargs=dict(q=0.75)))))
    out.append(("func", dict(base, func={"nanvar": "nanstd", "nanargmax": "nanargmin", "nanquantile": "nanmedian", "sum": "nansum", "nanmax": "nanmin"}[base["func"]],
                             kwargs={} if base["func"] == "nanquantile" else kw)))
    out.append(("min_count", dict(base, kwargs=dict(kw, min_count=3))))
    if base["expected"]:
        out.append(("fill_value", dict(base, fill=-2.0)))
        out.append(("expected_groups", dict(base, alt_expected=True)))
    out.append(("dtype", dict(base, kwargs=dict(kw, dtype="float32"))))
    if base.get("big"):
        out.append(("dtype64", dict(base, kwargs=dict(kw, dtype="float64"))))  # float32 data accumulated in float64
    if base["method"] in ("map-reduce", None):
        out.append(("method", dict(base, method="cohorts")))
        out.append(("reindex", dict(base, kwargs=dict(kw, reindex=False))))
    out.append(("engine", dict(base, kwargs=dict(kw, engine="flox" if "arg" not in base["func"] else "numpy"))))
    out.append(("sort", dict(base, kwargs=dict(kw, sort=False))))
    return out


def build_lazy(cfg):
    import flox

    s = shared()
    V = s["values"] * (-2.0 if cfg.get("alt_values") else 1.0)
    if cfg.get("big"):
        V = np.array([[16777216.0, 1.0, 1.0, 3.5, 0.25, 7.0], [1.0, 16777216.0, 1.0, NAN, 4.0, -3.0]], dtype="float32") * np.float32(-2.0 if cfg.get("alt_values") else 1.0)
    L = s["labels_seqA"].astype(float) if cfg.get("seq") else s["labels"]
    if cfg.get("alt_labels"):
        L = L[::-1].copy() if not cfg.get("seq") else s["labels_seqB"].astype(float)
    if cfg.get("labels2d"):
        V3 = np.stack([V[:, :3], V[:, 3:]], axis=1) * (1.0)  # (2, 2, 3)
        L2 = np.array([[0.0, 1.0, 0.0], [1.0, 2.0, NAN]])
        if cfg.get("alt_labels"):
            L2 = L2[::-1].copy()
        kw = dict(cfg["kwargs"], func=cfg["func"], method=cfg["method"])
        kw["expected_groups"] = np.array([0.0, 1.0, 2.0, 3.0] if not cfg.get("alt_expected") else [0.0, 1.0, 2.0, 4.0])
        kw["fill_value"] = cfg["fill"]
        chunks3 = ((2,), (1, 1), cfg["chunks"] if sum(cfg["chunks"]) == 3 else (1, 2))
        r, *g = flox.groupby_reduce(_dask(V3, chunks3), L2, **kw)
        return (r,)
    if cfg["kind"] == "scan":
        if cfg["func"] == "nancumsum":
            L = np.where(np.isnan(L), 2.0, L)
        return (flox.groupby_scan(_dask(V, ((2,), cfg["chunks"])), L, func=cfg["func"]),)
    kw = dict(cfg["kwargs"], func=cfg["func"], method=cfg["method"])
    if cfg["expected"]:
        kw["expected_groups"] = np.array([0.0, 1.0, 2.0, 3.0] if not cfg.get("alt_expected") else [0.0, 1.0, 2.0, 4.0])
        kw["fill_value"] = cfg["fill"]
    r, *g = flox.groupby_reduce(_dask(V, ((2,), cfg["chunks"])), L, **kw)
    return (r,)


def run_cocompute(res, shard):
    import dask

    base = BASES[shard["base"]]
    vs = variants(base)
    tuples = [(("base", base), v) for v in vs] + [(a, b) for a, b in itertools.combinations(vs, 2)]
    if shard["tier"] == "quick":
        tuples = tuples[: len(vs) + 30]
    tuples += [(("base", base), vs[0], vs[-1]), (vs[1], ("base", base), vs[2])]
    # the plans of one reduction side by side (map-reduce with intermediates reindexed at combine time next to cohorts): always explored
    byname = dict(vs)
    if "method" in byname and "reindex" in byname and (("method", byname["method"]), ("reindex", byname["reindex"])) not in tuples:
        tuples.append((("method", byname["method"]), ("reindex", byname["reindex"])))
    for combo in tuples:
        names = [n for n, _ in combo]
        case = dict(base=shard["base"], func=base["func"], combo=names)
        tags = dict(leg2="cocompute", func=base["func"], varied="+".join(n for n in names if n != "base"))
        res.evaluations += 1
        res.states += 1
        res.transitions += 1
        try:
            lazies = [build_lazy(c)[0] for _, c in combo]
        except e1.REFUSALS as e:
            res.outcomes[f"refused:{type(e).__name__}"] += 1
            continue
        except Exception as e:
            res.outcomes[f"error:{type(e).__name__}"] += 1
            continue
        # structural pre-check on the merged graph: one key, one task
        problems = []
        tasks = {}
        for i, lz in enumerate(lazies):
            g = graphx.TaskGraph((lz,))
            for k, t in g.dsk.items():
                dg = graphx.digest(("data", g.data[k])) if k in g.data else repr(t)
                if k in tasks and tasks[k][1] != dg:
                    problems.append(f"key {str(k)[:80]} is defined differently by results {tasks[k][0]} and {i}")
                    break
                tasks.setdefault(k, (i, dg))
        try:
            alone = [np.asarray(dask.compute(x, scheduler="sync")[0]) for x in lazies]
        except e1.REFUSALS as e:
            res.outcomes[f"refused-at-compute:{type(e).__name__}"] += 1
            continue
        except Exception as e:
            res.outcomes[f"error-at-compute-alone:{type(e).__name__}"] += 1
            continue
        try:
            # every result computes on its own: whatever the merged graph raises is caused by merging
            together = [np.asarray(x) for x in dask.compute(*lazies, scheduler="sync")]
            rev = [np.asarray(x) for x in dask.compute(*lazies[::-1], scheduler="sync")][::-1]
        except Exception as e:
            res.outcomes["error-at-compute"] += 1
            res.violate("cocompute-error", case, dict(exc=type(e).__name__, msg=str(e)[:200], key_collisions=problems[:2]), "results computed together",
                        tags=dict(tags, kind="error"), size=len(combo))
            continue
        res.compared += 1
        res.nontrivial += 1
        bad = [i for i in range(len(lazies)) if graphx.digest(alone[i]) != graphx.digest(together[i]) or graphx.digest(alone[i]) != graphx.digest(rev[i])]
        if bad:
            res.outcomes["cocompute-differs"] += 1
            i = bad[0]
            res.violate("cocompute-value", case, dict(together=together[i], reversed_order=rev[i], key_collisions=problems[:2]), dict(alone=alone[i]),
                        tags=dict(tags, kind="value"), size=len(combo))
            continue
        if problems:
            res.outcomes["key-collision"] += 1
            res.violate("cocompute-key-collision", case, dict(collisions=problems[:3]), "no key is defined by two different tasks",
                        tags=dict(tags, kind="collision"), size=len(combo))
            continue
        res.outcomes["ok"] += 1
    res.sample(dict(leg="cocompute", base={k: (list(v) if isinstance(v, tuple) else v) for k, v in base.items()}, varied=[n for n, _ in vs], tuples=len(tuples)))


def run_shard(shard):
    res = Result()
    if shard["leg"] == "history":
        run_history(res, shard)
    elif shard["leg"] == "args":
        run_args(res, shard)
    else:
        run_cocompute(res, shard)
    return res


def replay(payload):
    res = Result()
    c = payload["case"]
    if c.get("leg") == "args":
        run_args(res, dict(engine=c["engine"], dtype=c["dtype"], tier="thorough"))
    elif "history" in c:
        names = [n for n in c["history"] if n != "..."]
        run_history(res, dict(prefix=names[:2] if len(names) > 2 else names[:1], fresh=_fresh_all()))
    else:
        run_cocompute(res, dict(base=c["base"], tier="quick"))
    return res


def _fresh_all():
    names = alphabet_names()
    ctx = mp.get_context("spawn")
    with ctx.Pool(8, maxtasksperchild=1) as pool:
        return dict(pool.map(fresh_digest, names, chunksize=1))


def fresh_digest_inproc(n):
    return n, None
