"""C01  eager groupby_reduce == per-group NumPy reduction, on every engine.

E1 small-scope product explorer: every value tuple over the dtype's alphabet x every label tuple
over {0,1,2,missing} x every reduction x every engine, up to length n; the real groupby_reduce is
run on every point (value tuples batched along a leading axis, plus a separate pure 1-D sweep)."""

from __future__ import annotations

import itertools

import numpy as np

from mc import e1, refmodel as rm, space
from mc.runner import Result

PROPERTY = "C01"
LEVEL = "model_checking"
TECHNIQUE = "bounded exhaustive enumeration of inputs x engines (explicit-state, real eager call per state) against a NumPy reference model"
RULE = (
    "state = (reduction, engine, value dtype, label tuple, value tuple); all label tuples over "
    "{0,1,2,missing}^n (float labels with NaN / int labels with an unrequested 7 and expected_groups=[0,1,2]) "
    "x all value tuples over the dtype alphabet ({1,-2,0,3.5,NaN} for floats) for every n up to the bound; "
    "transition = one real groupby_reduce call (value tuples of one label tuple are the rows of one batched "
    "call; the 1-D leg calls once per value tuple); oracle = NumPy reduction of the member columns in "
    "original order. Non-trivial = label tuple has >=2 groups or a missing label AND some group has >=2 members."
)
ASSUMPTIONS = [
    "small-scope hypothesis: engine divergences show with <=5 elements, <=3 groups, alphabet {1,-2,0,3.5,NaN}",
    "NumPy (np.sum, np.nanmax, ...) is the specification; argmax/argmin only on NaN-free groups, nanarg* only on not-all-NaN groups",
    "an engine raising ValueError/NotImplementedError/ImportError for a reduction is 'not able to run it' (recorded); engine=None and 'numpy' must run everything",
    "order statistics are only a thin leg here (C18 owns them); mode/nanmode excluded by the property",
]

MISSING_F = float("nan")
FLOAT_LABELS = (0.0, 1.0, 2.0, MISSING_F)
INT_LABELS = (0, 1, 2, 7)  # 7 is not requested

FUNCS = space.REDUCIBLE + space.ORDER_STATS


def bounds(tier, seed):
    if tier == "quick":
        return dict(n_batched=4, n_1d=2, dtypes=["float64", "float32", "int64", "int8", "uint8", "bool"],
                    jit_dtypes=["float64", "int64", "bool"], engines=[str(e) for e in space.ENGINES])
    return dict(n_batched=5, n_1d=3, dtypes=["float64", "float32", "int64", "int8", "uint8", "bool"],
                jit_dtypes=["float64", "float32", "int64", "int8", "uint8", "bool"], engines=[str(e) for e in space.ENGINES],
                extra_label_kinds=["str", "datetime64"])


def funcs_for(dtype):
    dt = np.dtype(dtype)
    out = []
    for f in FUNCS:
        if f in ("any", "all") and dt.kind != "b":
            continue
        if f in space.ORDER_STATS and dt.kind == "b":
            continue
        out.append(f)
    return out


def shards(tier, seed):
    b = bounds(tier, seed)
    out = []
    for engine in space.ENGINES:
        for dtype in b["dtypes"]:
            if engine in ("numba", "numbagg") and dtype not in b["jit_dtypes"]:
                continue
            for func in funcs_for(dtype):
                out.append(dict(engine=engine, dtype=dtype, func=func, nb=b["n_batched"], n1=b["n_1d"],
                                extra=(tier == "thorough")))
    # infinity leg (infinities are ordinary values for NumPy) and size-boundary leg (group sizes around 2**8 and 2**16)
    for engine in space.ENGINES:
        for func in INF_FUNCS:
            out.append(dict(engine=engine, dtype="float64", func=func, leg="inf", n=3 if tier == "quick" else 4))
        out.append(dict(engine=engine, dtype="float64", func="*", leg="sizes"))
        for kind in MANY_REQ:
            out.append(dict(engine=engine, dtype="float64", func="*", leg="manyreq", kind=kind, n=4 if tier == "quick" else 5))
    # heavy (JIT) shards first so the pool is balanced
    out.sort(key=lambda s: 0 if s["engine"] in ("numba", "numbagg") else 1)
    return out


def _kw(func):
    if func in ("quantile", "nanquantile"):
        return dict(q=0.25)
    if func in ("var", "nanvar", "std", "nanstd"):
        return dict(ddof=1)
    return {}


def label_legs(extra):
    legs = [("float", FLOAT_LABELS, None), ("int-requested", INT_LABELS, [0, 1, 2])]
    if extra:
        legs.append(("str", ("a", "b", "c", None), None))
        legs.append(("datetime", ("D0", "D1", "D2", "NaT"), None))
    return legs


# many requested labels (>= 16): flox then codes the labels by binary search instead of a table / per-label loop
MANY_REQ = {
    "float-many": ((1.0, 3.0, 2.5, 99.0, float("nan")), [float(i) for i in range(16)]),
    "int-wide-many": ((10**9, 3 * 10**9, 25 * 10**8, 99 * 10**9), [i * 10**9 for i in range(16)]),
    "datetime-many": (("2001-01-02", "2001-01-04", "2001-01-03T12", "2001-04-10", "NaT"),
                      [f"2001-01-{i + 1:02d}" for i in range(16)]),
}
MANY_FUNCS = ["sum", "count", "nanmax", "nanfirst", "mean"]


def make_labels(kind, tup):
    if kind == "float-many":
        return np.array(tup, dtype=float)
    if kind == "int-wide-many":
        return np.array(tup, dtype=np.int64)
    if kind == "datetime-many":
        return np.array(tup, dtype="datetime64[ns]")
    if kind == "float":
        return np.array(tup, dtype=float)
    if kind == "int-requested":
        return np.array(tup, dtype=np.int64)
    if kind == "str":
        # None is not a valid "missing" for fixed-width strings: use object dtype
        return np.array(tup, dtype=object)
    if kind == "datetime":
        m = {"D0": "2001-01-01", "D1": "2001-01-02", "D2": "2001-01-03", "NaT": "NaT"}
        return np.array([m[t] for t in tup], dtype="datetime64[ns]")
    raise KeyError(kind)


def nontrivial(lab_tuple, kind):
    miss = {"float": lambda x: x != x, "int-requested": lambda x: x == 7, "str": lambda x: x is None,
            "datetime": lambda x: x == "NaT", "float-many": lambda x: x not in (1.0, 3.0),
            "int-wide-many": lambda x: x not in (10**9, 3 * 10**9),
            "datetime-many": lambda x: x not in ("2001-01-02", "2001-01-04")}[kind]
    present = [x for x in lab_tuple if not miss(x)]
    groups = set(present)
    hasmissing = len(present) != len(lab_tuple)
    big = any(present.count(g) >= 2 for g in groups)
    return (len(groups) >= 2 or hasmissing) and big


def check_case(res, engine, dtype, func, kind, requested, lab_tuple, V, oned=False, extra_kw=None):
    """Run the real call for one label tuple (all rows of V) and compare with the model."""
    labels = make_labels(kind, lab_tuple)
    kw = dict(func=func, engine=engine, **(extra_kw or {}))
    fk = _kw(func)
    if fk:
        kw["finalize_kwargs"] = fk
    if requested is not None:
        kw["expected_groups"] = np.array(requested)
    mem = rm.members(labels.tolist() if not kind.startswith("datetime") else list(labels), requested)
    if requested is not None:
        order = list(requested)
    else:
        keys = list(mem.keys())
        order = sorted(keys)
    if not mem and requested is None:
        # nothing but missing labels: no group exists -> an empty result, not a failure
        out = e1.call_reduce(V, labels, **kw)
        res.evaluations += V.shape[0]
        res.transitions += 1
        res.states += 1
        tags = dict(engine=str(engine), func=func, dtype=dtype, labels=kind, oned=False, all_missing=True)
        case = dict(engine=engine, dtype=dtype, func=func, label_kind=kind, labels=list(lab_tuple), expected_groups=None, oned=False, finalize_kwargs=fk)
        if out.kind == "refused" and out.origin == "flox":
            res.outcomes[f"refused:{out.exc}"] += 1
            if engine in (None, "numpy"):
                res.violate("eager-refused", dict(case, values=V), out.brief(), "an empty result (no group exists)", tags=dict(tags, kind="refused", exc=out.exc), size=len(lab_tuple))
        elif out.kind != "ok":
            res.outcomes[f"error:{out.exc}"] += 1
            res.violate("eager-error", dict(case, values=V), out.brief(), "an empty result (no group exists)", tags=dict(tags, kind="error", exc=out.exc), size=len(lab_tuple))
        elif len(np.asarray(out.groups[0])) != 0 or np.asarray(out.result).shape != V.shape[:-1] + (0,):
            res.outcomes["wrong-labels"] += 1
            res.violate("eager-labels", dict(case, values=V), dict(groups=out.groups[0], shape=list(np.asarray(out.result).shape)), dict(groups=[], shape=list(V.shape[:-1]) + [0]),
                        tags=dict(tags, kind="labels"), size=len(lab_tuple))
        else:
            res.outcomes["ok-empty"] += 1
        return
    exp, scope, present = e1.expected_table(func, V, labels.tolist() if not kind.startswith("datetime") else list(labels), order,
                                            requested=requested, **fk)
    rtol = rm.rtol_for(dtype, func)
    rows = [V] if not oned else [V[i] for i in range(V.shape[0])]
    for ri, arr in enumerate(rows):
        out = e1.call_reduce(arr, labels, **kw)
        res.evaluations += 1 if oned else V.shape[0]
        res.transitions += 1
        res.states += 1 if oned else V.shape[0]
        tags = dict(engine=str(engine), func=func, dtype=dtype, labels=kind, oned=oned)
        case = dict(engine=engine, dtype=dtype, func=func, label_kind=kind, labels=list(lab_tuple),
                    expected_groups=requested, oned=oned, finalize_kwargs=fk)
        if out.kind == "refused":
            res.outcomes[f"refused:{out.exc}"] += 1
            if engine in (None, "numpy"):
                res.violate("eager-refused", dict(case, values=arr), out.brief(), "engine None/numpy runs every documented reduction",
                            tags=dict(tags, kind="refused", exc=out.exc), size=len(lab_tuple))
            continue
        if out.kind == "error":
            res.outcomes[f"error:{out.exc}"] += 1
            res.violate("eager-error", dict(case, values=arr), out.brief(), "a result equal to NumPy's",
                        tags=dict(tags, kind="error", exc=out.exc), size=len(lab_tuple))
            continue
        res.compared += 1 if oned else V.shape[0]
        obs = out.result
        e, s = (exp, scope) if not oned else (exp[..., ri, :], scope[ri])
        # labels returned
        got_groups = out.groups[0]
        if kind.startswith("datetime"):
            want_groups = np.array(order, dtype="datetime64[ns]") if order else np.array([], dtype="datetime64[ns]")
            okg = len(got_groups) == len(want_groups) and bool((np.asarray(got_groups).astype("datetime64[ns]") == want_groups).all())
        else:
            okg = rm.same_labels(got_groups, order)
        if not okg:
            res.outcomes["wrong-labels"] += 1
            res.violate("eager-labels", dict(case, values=arr), dict(groups=got_groups), dict(groups=order),
                        tags=dict(tags, kind="labels"), size=len(lab_tuple))
            continue
        bad = e1.compare(obs, e, s, rtol=rtol)
        if bad is None:
            res.outcomes["ok"] += 1
            continue
        res.outcomes["mismatch"] += 1
        # describe the failing cell for finding predicates
        if bad[0] == "shape":
            res.violate("eager-shape", dict(case, values=arr), dict(shape=bad[1]), dict(shape=bad[2]),
                        tags=dict(tags, kind="shape"), size=len(lab_tuple))
            continue
        g = bad[-1]
        row = ri if oned else bad[-2]
        lab = order[g]
        pos = mem[lab.item() if isinstance(lab, np.generic) else lab]
        vals = np.asarray(V[row])[pos]
        nul = rm.isnull(vals)
        t = dict(tags, kind="value", group_has_nan=bool(nul.any()), group_all_nan=bool(nul.all()),
                 nan_first=bool(nul[0]), group_size=len(pos))
        res.violate("eager-value", dict(case, values=V[row], group=lab, members=vals),
                    np.asarray(obs)[bad] if not oned else np.asarray(obs)[bad], np.asarray(e)[bad], tags=t,
                    size=len(lab_tuple))


INF_FUNCS = "sum nansum prod nanprod mean nanmean max nanmax min nanmin count first last nanfirst nanlast".split()
A_INF4 = (1.0, float("nan"), float("inf"), -float("inf"))
SIZE_FUNCS = "count sum nansum mean nanmean var nanvar max nanmin nanlast".split()


def run_inf(res, shard):
    engine, func = shard["engine"], shard["func"]
    for n in range(1, shard["n"] + 1):
        V = space.value_matrix(A_INF4, n, "float64")
        for lab_tuple in itertools.product(FLOAT_LABELS, repeat=n):
            check_case(res, engine, "float64", func, "float", None, lab_tuple, V)
            res.nontrivial += V.shape[0]
    res.sample(dict(leg="inf", engine=engine, func=func, alphabet=["1", "nan", "inf", "-inf"], n=shard["n"]))
    return res


def run_manyreq(res, shard):
    """16 requested labels, elements labelled with two of them, with an unrequested value between them, with one
    above all of them, or with a missing label; requested order ascending and (sort=False) descending."""
    engine, kind = shard["engine"], shard["kind"]
    alphabet, requested = MANY_REQ[kind]
    if kind == "datetime-many":
        requested = list(np.array(requested, dtype="datetime64[ns]"))
    for n in range(1, shard["n"] + 1):
        V = space.value_matrix((1.0, -2.0, float("nan")), n, "float64")
        for lab_tuple in itertools.product(alphabet, repeat=n):
            if kind != "float-many" and n == shard["n"] and shard["n"] > 3:
                continue
            for func in MANY_FUNCS:
                for req, extra in ((requested, {}), (requested[::-1], dict(sort=False))):
                    check_case(res, engine, "float64", func, kind, req, lab_tuple, V, extra_kw=extra)
            if nontrivial(lab_tuple, kind):
                res.nontrivial += V.shape[0]
    res.sample(dict(leg="manyreq", engine=engine, kind=kind, requested=16, label_alphabet=[str(a) for a in alphabet], n=shard["n"], funcs=MANY_FUNCS))
    return res


def run_sizes(res, shard):
    """One big group whose size sits on a power-of-two boundary (narrow counters wrap there) next to a small group."""
    engine = shard["engine"]
    for size in (255, 256, 257, 65535, 65536, 65537):
        for nan_every in (0, 7):
            big = np.ones(size)
            if nan_every:
                big[::nan_every] = np.nan
            vals = np.concatenate([big, [2.0, 4.0]])
            V = np.stack([vals, vals * -3.0])
            labels = np.concatenate([np.zeros(size), [1.0, 1.0]])
            perm = np.argsort((np.arange(size + 2) * 7919) % (size + 2), kind="stable")  # a fixed shuffle: unsorted labels
            for order in ("sorted", "shuffled"):
                Vv, lab = (V, labels) if order == "sorted" else (V[:, perm], labels[perm])
                for func in SIZE_FUNCS:
                    out = e1.call_reduce(Vv, lab, func=func, engine=engine)
                    res.evaluations += 2
                    res.states += 2
                    res.transitions += 1
                    res.nontrivial += 2
                    case = dict(leg="sizes", engine=engine, func=func, group_size=size, nan_every=nan_every, order=order)
                    tags = dict(engine=str(engine), func=func, labels="sizes", kind="value")
                    if out.kind != "ok":
                        res.outcomes[f"{out.kind}:{out.exc}"] += 1
                        if out.kind == "error" or engine in (None, "numpy"):
                            res.violate("eager-error", case, out.brief(), "a result", tags=dict(tags, kind=out.kind), size=size)
                        continue
                    res.compared += 2
                    exp = np.stack([np.array([rm.reduce_members(func, Vv[r:r + 1][:, lab == g], positions=np.flatnonzero(lab == g))[0][0] for g in (0.0, 1.0)], dtype=float)
                                    for r in range(2)])
                    bad = rm.mismatch(np.asarray(out.result, dtype=float), exp, rtol=1e-9)
                    if bad.any():
                        res.outcomes["mismatch"] += 1
                        res.violate("eager-value", case, np.asarray(out.result), exp, tags=tags, size=size)
                    else:
                        res.outcomes["ok"] += 1
    res.sample(dict(leg="sizes", engine=engine, group_sizes=[255, 256, 257, 65535, 65536, 65537], funcs=SIZE_FUNCS))
    return res


def run_shard(shard):
    e1.reset_flox_caches()
    res = Result()
    if shard.get("leg") == "inf":
        return run_inf(res, shard)
    if shard.get("leg") == "sizes":
        return run_sizes(res, shard)
    if shard.get("leg") == "manyreq":
        return run_manyreq(res, shard)
    engine, dtype, func = shard["engine"], shard["dtype"], shard["func"]
    sampled = False
    nb, n1 = shard["nb"], shard["n1"]
    slow = func in space.ORDER_STATS  # thin leg only (C18 owns order statistics)
    if slow:
        nb, n1 = min(nb, 3), min(n1, 2)
    small = slow and engine in ("numpy", "numba", "numbagg")  # per-group Python loop in these engines
    for kind, alphabet, requested in label_legs(shard["extra"]):
        # batched leg
        for n in range(1, nb + 1):
            V = space.value_matrix(space.alphabet_for(dtype, small=small), n, dtype)
            for lab_tuple in itertools.product(alphabet, repeat=n):
                if kind in ("str", "datetime") and n > 3:
                    continue
                check_case(res, engine, dtype, func, kind, requested, lab_tuple, V)
                if nontrivial(lab_tuple, kind):
                    res.nontrivial += V.shape[0]
                    if not sampled and n == 3:
                        res.sample(dict(engine=engine, dtype=dtype, func=func, labels=list(lab_tuple),
                                        values_row_7=V[min(7, len(V) - 1)], rows=V.shape[0]))
                        sampled = True
                res.classes[f"groups={len(set(x for x in lab_tuple if x == x and x not in (7, None, 'NaT')))}"] += 1
        # pure 1-D leg (smaller alphabet, smaller n)
        if kind in ("float", "int-requested"):
            for n in range(1, n1 + 1):
                V = space.value_matrix(space.alphabet_for(dtype, small=True), n, dtype)
                for lab_tuple in itertools.product(alphabet, repeat=n):
                    check_case(res, engine, dtype, func, kind, requested, lab_tuple, V, oned=True)
                    if nontrivial(lab_tuple, kind):
                        res.nontrivial += V.shape[0]
    return res


def replay(payload):
    res = Result()
    c = payload["case"]
    from mc.runner import unjson_float

    if c.get("leg") == "sizes":
        return run_sizes(res, dict(engine=c["engine"]))

    V = np.array(unjson_float(c["values"]), dtype=c["dtype"])
    V2 = V.reshape(1, -1)
    lab = tuple(unjson_float(c["labels"]))
    check_case(res, c["engine"], c["dtype"], c["func"], c["label_kind"], c["expected_groups"], lab, V2,
               oned=bool(c.get("oned")))
    return res
