"""C10  grouped scans == per-group sequential scans, for every chunking.

E1: {nancumsum, ffill, bfill} x all value tuples over the dtype alphabet (floats {1,-2,NaN}, ints, bool,
datetime64 with NaT) x all label tuples over {0,1,2}(+missing for ffill/bfill)^n x every composition
of n as the chunking of the scanned axis (hence every shape of the parallel-prefix tree with <= n
leaves) x in-memory / chunked / chunked batch axis."""

from __future__ import annotations

import itertools

import numpy as np

from mc import e1, refmodel as rm, space
from mc.runner import Result

PROPERTY = "C10"
LEVEL = "model_checking"
TECHNIQUE = "bounded exhaustive enumeration of values x labels x chunkings (all prefix-tree shapes) against a sequential per-group scan"
ENGINE = "E1"
RULE = (
    "state = (scan, dtype, label tuple, chunking composition | in-memory, batch blocks, value tuple); every state is "
    "run through the real groupby_scan (+compute); value tuples ride on a leading batch axis, plus a pure 1-D leg. "
    "Oracle: sequential per-group loop (np.nancumsum / carry-last-valid) at the positions of every group; positions with "
    "a missing label are not compared with the model, but chunked == in-memory is checked on ALL positions; bfill(x) == reverse(ffill(reverse(x))) is checked differentially. "
    "Non-trivial = >=2 chunks, some group has members in >=2 chunks and is absent from (or all-NaN in) some chunk between them "
    "or has a NaN run touching a boundary."
)
ASSUMPTIONS = [
    "small scope: n<=5 (quick) / n<=6 + stratum of 7 (thorough) elements, <=3 groups, alphabet {1,-2,NaN}",
    "positions whose label is missing are unspecified and not compared",
    "infinities are outside C10's quantifier (C20 owns them)",
    "synchronous scheduler (task orders are C03's)",
]

NANL = float("nan")
VALS = {
    "float64": (1.0, -2.0, float("nan")),
    "float32": (1.0, -2.0, float("nan")),
    "int64": (1, -2, 3),
    "int8": (1, -2, 3),
    "bool": (True, False),
    "datetime64[ns]": ("2001-01-01", "2001-01-05", "NaT"),
}


def bounds(tier, seed):
    if tier == "quick":
        return dict(n_complete=4, n_stratum=5, strata=4, stratum=seed % 4, n_other_dtypes=3)
    return dict(n_complete=5, n_stratum=6, strata=4, stratum=seed % 4, n_other_dtypes=4)


def shards(tier, seed):
    b = bounds(tier, seed)
    out = []
    for func in ("nancumsum", "ffill", "bfill"):
        for n in range(1, b["n_complete"] + 1):
            nparts = {1: 1, 2: 1, 3: 6, 4: 6, 5: 24}[n]
            for part in range(nparts):
                out.append(dict(func=func, dtype="float64", n=n, part=part, nparts=nparts))
        out.append(dict(func=func, dtype="float64", n=b["n_stratum"], part=b["stratum"],
                        nparts=b["strata"] * (4 if b["n_stratum"] == 5 else 16)))
        for dtype in ("float32", "int64", "int8", "bool", "datetime64[ns]"):
            if func == "nancumsum" and dtype.startswith("datetime"):
                continue  # a cumulative sum of dates is not defined
            for n in range(1, b["n_other_dtypes"] + 1):
                out.append(dict(func=func, dtype=dtype, n=n, part=0, nparts=1))
    # many blocks (deep parallel-prefix trees): k size-1 or size-2 chunks, periodic label patterns
    for func in ("nancumsum", "ffill", "bfill"):
        for k in (tuple(range(8, 19)) if tier == "quick" else tuple(range(8, 25))):
            out.append(dict(func=func, dtype="float64", n=k, part=0, nparts=1, many=True))
    out.sort(key=lambda s: -s["n"] * 100 // s["nparts"])
    return out


def run_many(res, shard):
    func, k = shard["func"], shard["n"]
    for per in (1, 2):
        n = k * per
        base = np.arange(1.0, n + 1.0)
        rows = [base, np.where(np.arange(n) % 3 == 1, np.nan, base), np.where(np.arange(n) % 5 == 0, base, np.nan), -base[::-1]]
        V = np.array(rows)
        pats = []
        for p in (1, 2, 3):
            for r in (1, 2, 3):
                pats.append(tuple(float((i // r) % p) for i in range(n)))
        if func != "nancumsum":
            pats.append(tuple(NANL if i % 4 == 2 else float(i % 2) for i in range(n)))
        for lt in dict.fromkeys(pats):
            check_point(res, func, "float64", lt, (per,) * k, 1, V)
            res.nontrivial += V.shape[0]
            res.classes[f"blocks={k}"] += 1
    res.sample(dict(leg="many-blocks", func=func, blocks=k, chunk_sizes=[1, 2], label_patterns="(i // r) % p, p,r in 1..3"))
    return res


def label_alphabet(func):
    return (0.0, 1.0, 2.0, NANL) if func in ("ffill", "bfill") else (0.0, 1.0, 2.0)


def value_matrix(dtype, n):
    rows = list(itertools.product(VALS[dtype], repeat=n))
    return np.array(rows, dtype=dtype).reshape(len(rows), n)


def reference_scan(func, V, lab_tuple):
    """exp (B, n) and mask (n,) of positions that are asserted."""
    V = np.asarray(V)
    B, n = V.shape
    mem = rm.members(list(lab_tuple))
    mask = np.zeros(n, dtype=bool)
    if func == "nancumsum":
        if V.dtype.kind in "iub":
            exp = np.zeros((B, n), dtype=np.int64)
        else:
            exp = np.zeros((B, n), dtype=V.dtype)
    else:
        exp = V.copy()
    for lab, pos in mem.items():
        mask[pos] = True
        M = V[:, pos]
        if func == "nancumsum":
            exp[:, pos] = np.nancumsum(M.astype(exp.dtype), axis=1)
        else:
            cols = range(len(pos)) if func == "ffill" else range(len(pos) - 1, -1, -1)
            last = None
            for j in cols:
                col = M[:, j].copy()
                nul = rm.isnull(col)
                if last is not None:
                    col[nul] = last[nul]
                exp[:, pos[j]] = col
                last = col
    return exp, mask


_EAGER = {}


def check_point(res, func, dtype, lab_tuple, chunks, bblocks, V, oned_row=None, labels_dask=False):
    import dask.array as da

    n = len(lab_tuple)
    labels = np.array(lab_tuple, dtype=float)
    arr_np = V if oned_row is None else V[oned_row]
    if chunks is None:
        arr = arr_np
    elif oned_row is None:
        B = V.shape[0]
        bch = (B,) if bblocks == 1 else (B // 2, B - B // 2)
        arr = da.from_array(arr_np, chunks=(bch, chunks))
    else:
        arr = da.from_array(arr_np, chunks=(chunks,))
    by = da.from_array(labels, chunks=(chunks,)) if (labels_dask and chunks is not None) else labels
    out = e1.call_scan(arr, by, func=func)
    rows = V.shape[0] if oned_row is None else 1
    res.evaluations += rows
    res.states += rows
    res.transitions += 1
    case = dict(func=func, dtype=dtype, labels=list(lab_tuple), chunks=list(chunks) if chunks else None,
                batch_blocks=bblocks, oned_row=oned_row, labels_dask=labels_dask)
    tags = dict(func=func, dtype=dtype, chunked=chunks is not None, oned=oned_row is not None,
                has_missing_label=any(x != x for x in lab_tuple), labels_dask=labels_dask)
    size = n * 10 + (len(chunks) if chunks else 0)
    missing = any(x != x for x in lab_tuple)
    if out.kind == "refused":
        res.outcomes[f"refused:{out.exc}"] += 1
        return None
    if out.kind == "error":
        res.outcomes[f"error:{out.exc}"] += 1
        res.violate("scan-error", case, out.brief(), "a scanned array or a clean refusal",
                    tags=dict(tags, kind="error", exc=out.exc), size=size)
        return None
    exp, mask = reference_scan(func, V if oned_row is None else V[oned_row:oned_row + 1], lab_tuple)
    obs = np.asarray(out.result)
    if oned_row is not None:
        obs = obs.reshape(1, -1) if obs.ndim == 1 else obs
    res.compared += rows
    if obs.shape != exp.shape:
        res.outcomes["wrong-shape"] += 1
        res.violate("scan-shape", case, dict(shape=list(obs.shape)), dict(shape=list(exp.shape)), tags=dict(tags, kind="shape"), size=size)
        return None
    scope = np.broadcast_to(mask[None, :], exp.shape)
    rtol = 1e-6 if dtype == "float32" else 1e-12
    bad = e1.compare(obs, exp, scope, rtol=rtol)
    if bad is None and chunks is not None and oned_row is None and missing:
        # "the result is the same for in-memory and chunked inputs": also at positions whose label is missing, where the model
        # says nothing, the chunked result must equal the in-memory result of the same call
        key = (func, dtype, lab_tuple)
        if key not in _EAGER:
            if len(_EAGER) > 2000:
                _EAGER.clear()
            _EAGER[key] = e1.call_scan(V, labels, func=func)
        eg = _EAGER[key]
        if eg.kind == "ok":
            bad2 = e1.compare(obs, np.asarray(eg.result), np.ones(obs.shape, dtype=bool), rtol=rtol)
            if bad2 is not None:
                res.outcomes["chunked-differs-from-eager"] += 1
                row, pos = bad2
                res.violate("scan-eager-vs-chunked", dict(case, values=V[row], position=pos), dict(chunked=obs[row]), dict(in_memory=np.asarray(eg.result)[row]),
                            tags=dict(tags, kind="eager-vs-chunked"), size=size)
                return None
    if bad is None:
        res.outcomes["ok"] += 1
        return obs
    res.outcomes["mismatch"] += 1
    row, pos = bad
    vrow = V[row] if oned_row is None else V[oned_row]
    res.violate("scan-value", dict(case, values=vrow, position=pos), dict(got=obs[row]), dict(want=exp[row], asserted_positions=mask),
                tags=dict(tags, kind="value"), size=size)
    return None


def interesting(lab_tuple, chunks):
    if chunks is None or len(chunks) < 2:
        return False
    blocks = {}
    for i, lab in enumerate(lab_tuple):
        if lab == lab:
            blocks.setdefault(lab, set()).add(space.block_of(i, chunks))
    return any(len(b) >= 2 for b in blocks.values())


def run_shard(shard):
    e1.reset_flox_caches()
    res = Result()
    if shard.get("many"):
        return run_many(res, shard)
    func, dtype, n = shard["func"], shard["dtype"], shard["n"]
    V = value_matrix(dtype, n)
    layouts = [None] + space.compositions(n)
    pairs = [(lt, ch) for lt in itertools.product(label_alphabet(func), repeat=n) for ch in layouts]
    pairs = [p for i, p in enumerate(pairs) if i % shard["nparts"] == shard["part"]]
    for lt, ch in pairs:
        if all(x != x for x in lt):
            continue
        obs = check_point(res, func, dtype, lt, ch, 1, V)
        if interesting(lt, ch):
            res.nontrivial += V.shape[0]
            res.classes[f"blocks={len(ch)}"] += 1
        if ch is not None and len(ch) >= 2:
            if n <= 3 or len(ch) == 2:
                check_point(res, func, dtype, lt, ch, 2, V)  # chunked batch axis
        if ch is not None and n <= 3:
            check_point(res, func, dtype, lt, ch, 1, V, labels_dask=True)
        if n <= 3 and dtype in ("float64", "int64"):
            for r in range(V.shape[0]):
                check_point(res, func, dtype, lt, ch, 1, V, oned_row=r)
        # mirror law, differentially on flox itself (in memory)
        if func == "bfill" and ch is None and obs is not None:
            out = e1.call_scan(V[:, ::-1].copy(), np.array(lt[::-1], dtype=float), func="ffill")
            res.transitions += 1
            if out.kind == "ok":
                mask = np.array([x == x for x in lt])
                bad = e1.compare(np.asarray(out.result)[:, ::-1], obs, np.broadcast_to(mask[None, :], obs.shape), rtol=0)
                if bad is not None:
                    res.violate("scan-mirror", dict(func="bfill", dtype=dtype, labels=list(lt), values=V[bad[0]]),
                                dict(bfill=obs[bad[0]]), dict(reversed_ffill=np.asarray(out.result)[bad[0], ::-1]),
                                tags=dict(func="bfill", dtype=dtype, kind="mirror"), size=n * 10)
        if n == 4 and lt == (0.0, 1.0, 0.0, 0.0) and ch == (1, 2, 1):
            res.sample(dict(func=func, dtype=dtype, labels=list(lt), chunks=list(ch), rows=V.shape[0], example_row=V[5]))
    # nancumsum must refuse missing labels rather than scan across them
    if func == "nancumsum" and shard["part"] == 0 and n >= 2:
        lt = (0.0,) * (n - 1) + (NANL,)
        for ch in (None, (n,), (1,) * n):
            out = check_point(res, func, dtype, lt, ch, 1, V)
            res.classes["nancumsum-missing-label"] += 1
    return res


def replay(payload):
    from mc.runner import unjson_float

    res = Result()
    c = payload["case"]
    lt = tuple(unjson_float(c["labels"]))
    if len(lt) > 7:
        return run_many(res, dict(func=c["func"], n=len(c["chunks"])))
    V = value_matrix(c["dtype"], len(lt))
    check_point(res, c["func"], c["dtype"], lt, tuple(c["chunks"]) if c.get("chunks") else None, c.get("batch_blocks", 1), V,
                oned_row=c.get("oned_row"), labels_dask=c.get("labels_dask", False))
    return res
