"""C05  one output slot per requested label; fill_value and min_count honoured exactly.

E1: label tuples over {0,1,2,missing}^n x expected_groups kinds (exact / superset / subset / disjoint /
permuted / permuted with absent members; as ndarray, list, pd.Index) x sort x fill_value x min_count x
reduction x engine, eager and chunked (every composition of n, methods None / map-reduce / cohorts)."""

from __future__ import annotations

import itertools

import numpy as np

from mc import e1, refmodel as rm, space
from mc.runner import Result

PROPERTY = "C05"
LEVEL = "model_checking"
TECHNIQUE = "bounded exhaustive enumeration of labels x expected_groups x fill x min_count x plans against a slot-by-slot reference model"
ENGINE = "E1"
RULE = (
    "state = (reduction, engine, label tuple over {0,1,2,NaN}^n, expected_groups kind, sort, fill_value, min_count, "
    "eager | (chunking composition, method), value tuple over {1,-2,NaN}); transition = one real groupby_reduce call "
    "(+compute) evaluating all value tuples as batch rows. Oracle per slot: requested order (sorted iff sort), absent "
    "label -> fill_value, count<min_count -> fill_value, else NumPy reduction of exactly that label's members. "
    "Non-trivial = some requested label absent or below min_count AND some requested label present."
)
ASSUMPTIONS = [
    "small scope: n<=3 (quick) / 4 (thorough) elements, labels {0,1,2,NaN}, values {1,-2,NaN}",
    "with min_count=None (or 0 for nanmin/nanmax, flox's documented default-fill rule) a present but all-NaN group is not compared with NumPy, only eager==chunked",
    "fill_value=None only when every requested label occurs",
    "results are compared numerically (fill 0 vs 0.0 equal); dtype is C11's",
]

NANL = float("nan")
LABELS = (0.0, 1.0, 2.0, NANL)
EXPECTED = {
    "exact": [0.0, 1.0, 2.0],
    "superset": [0.0, 1.0, 2.0, 3.0],
    "subset": [1.0],
    "disjoint": [5.0, 6.0],
    "permuted": [2.0, 0.0],
    "permuted-absent": [3.0, 1.0, 0.0],
}
FILLS = {"nan": float("nan"), "zero": 0, "neg": -7, "big": 1e9}
MIN_COUNTS = (None, 0, 1, 2, 9)
FUNCS = [
    ("sum", "float64"), ("nansum", "float64"), ("prod", "float64"), ("nanprod", "float64"), ("mean", "float64"),
    ("nanmean", "float64"), ("nanvar", "float64"), ("max", "float64"), ("nanmax", "float64"), ("nanmin", "float64"),
    ("count", "float64"), ("nanfirst", "float64"), ("last", "float64"), ("argmax", "float64"),
    ("nanargmax", "float64"), ("any", "bool"), ("all", "bool"), ("nansum", "int64"), ("max", "int64"),
]  # fmt: skip
FULL_EAGER = ("sum", "nanprod", "mean", "nanmax", "count", "nanfirst", "argmax", "any")  # quick: full option product for these
CHUNKED_FUNCS = ["nansum", "prod", "nanmean", "max", "nanmax", "nanmin", "count", "nanfirst", "nanargmax", "any", "nanvar"]


def bounds(tier, seed):
    return dict(n=3 if tier == "quick" else 4, chunked_n=3,
                expected=list(EXPECTED), fills=list(FILLS), min_counts=[str(m) for m in MIN_COUNTS])


def shards(tier, seed):
    n = bounds(tier, seed)["n"]
    out = []
    for func, dtype in FUNCS:
        for engine in ("numpy", "flox", "numbagg"):
            # thorough: n=4 with the full option product for the numpy engine, n=3 (full product) for the others
            out.append(dict(kind="eager", func=func, dtype=dtype, engine=engine, n=n if (tier == "quick" or engine == "numpy") else 3, tier=tier,
                            reduced=(tier == "quick" and engine != "numpy")))
        if func in CHUNKED_FUNCS and dtype != "int64":
            if tier == "quick" and func in ("prod", "nanvar", "nanmin"):
                continue
            nparts = 6 if tier == "quick" else 24
            for method in (None, "map-reduce", "cohorts"):
                for part in range(nparts):
                    out.append(dict(kind="chunked", func=func, dtype=dtype, engine="numpy", n=3, method=method,
                                    part=part, nparts=nparts, tier=tier))
    # 2-D labels reduced along one of their two axes: every slice has its own absent labels and its own member counts
    for func in ("sum", "nanmax", "count", "nanmean"):
        for shp in ((2, 2),) if tier == "quick" else ((2, 2), (2, 3)):
            nparts = 1 if shp == (2, 2) else 9
            for part in range(nparts):
                out.append(dict(kind="partial", func=func, dtype="float64", engine="numpy", n=int(np.prod(shp)), shape=list(shp),
                                part=part, nparts=nparts, tier=tier))
    out.sort(key=lambda s: (0 if s["engine"] == "numbagg" else 1, 0 if s["kind"] == "chunked" else 1))
    return out


def run_partial(res, shard):
    """expected_groups, fill_value and min_count for 2-D labels reduced along one axis, eager and chunked: each index of the
    kept axis is one 1-D problem with its own absent labels (flox documents min_count=1 as the default for partial axes)."""
    import dask.array as da

    func, shp = shard["func"], tuple(shard["shape"])
    size = int(np.prod(shp))
    V = space.value_matrix((1.0, -2.0, float("nan")), size, "float64")
    B = V.shape[0]
    Vn = V.reshape((B,) + shp)
    requested = [0.0, 1.0, 2.0]
    labs = [lt for lt in itertools.product((0.0, 1.0, float("nan")), repeat=size)]
    labs = [lt for i, lt in enumerate(labs) if i % shard["nparts"] == shard["part"]]
    fill = -7.0
    for lt in labs:
        labels = np.array(lt, dtype=float).reshape(shp)
        for axis, mc in itertools.product((-1, -2), (None, 1, 2, 3)):
            kw = dict(func=func, engine="numpy", expected_groups=np.array(requested), fill_value=fill, axis=axis)
            if mc is not None:
                kw["min_count"] = mc
            variants = [(None, None)] + [(g, "map-reduce") for g in itertools.product(*[space.compositions(k) for k in shp]) if any(len(c) > 1 for c in g)]
            for grid, method in variants:
                arr = Vn if grid is None else da.from_array(Vn, chunks=((B,),) + tuple(grid))
                out = e1.call_reduce(arr, labels, **(kw if grid is None else dict(kw, method=method)))
                res.evaluations += B
                res.states += B
                res.transitions += 1
                case = dict(leg="partial", func=func, label_shape=list(shp), labels=list(lt), axis=axis, min_count=mc, fill=fill,
                            grid=[list(g) for g in grid] if grid else None, method=method)
                tags = dict(leg2="partial", func=func, axis=axis, min_count=str(mc), chunked=grid is not None)
                sz = size * 10 + (sum(len(g) for g in grid) if grid else 0)
                if out.kind == "refused":
                    res.outcomes[f"refused:{out.exc}"] += 1
                    continue
                if out.kind == "error":
                    res.outcomes[f"error:{out.exc}"] += 1
                    res.violate("slots-error", case, out.brief(), "a result with one slot per requested label", tags=dict(tags, kind="error", exc=out.exc), size=sz)
                    continue
                res.compared += B
                if not rm.same_labels(out.groups[0], requested):
                    res.violate("slots-labels", case, dict(groups=out.groups[0]), dict(groups=requested), tags=dict(tags, kind="labels"), size=sz)
                    continue
                kept = shp[0] if axis == -1 else shp[1]
                obs = np.asarray(out.result)
                if obs.shape != (B, kept, len(requested)):
                    res.violate("slots-shape", case, dict(shape=list(obs.shape)), dict(shape=[B, kept, len(requested)]), tags=dict(tags, kind="shape"), size=sz)
                    continue
                ok = True
                for i in range(kept):
                    sub = Vn[:, i, :] if axis == -1 else Vn[:, :, i]
                    lab = tuple((labels[i, :] if axis == -1 else labels[:, i]).tolist())
                    exp, sc, present, cnt, either, numpy_exp, fillarr = slot_expectation(func, sub, lab, requested, fill, 1 if mc is None else mc)
                    bad = e1.compare(obs[:, i, :], exp, sc, rtol=1e-12)
                    if bad is not None:
                        row, g = bad
                        slot = "absent" if not present[g] else ("below-min_count" if cnt[row, g] < (1 if mc is None else mc) else "present")
                        res.outcomes["mismatch"] += 1
                        res.violate("slots-value", dict(case, values=sub[row], kept_index=i, slot_label=requested[g], slot_kind=slot),
                                    obs[:, i, :][bad], exp[bad], tags=dict(tags, kind="value", slot=slot), size=sz)
                        ok = False
                        break
                    if any(x != x for x in lab) or len(set(lab)) < 2:
                        res.nontrivial += B
                if ok:
                    res.outcomes["ok"] += 1
    res.sample(dict(leg="partial", func=func, label_shape=list(shp), axis=[-1, -2], min_count=[None, 1, 2, 3], fill_value=fill, expected_groups=requested))
    return res


def fills_for(func):
    if func in ("any", "all"):
        return {"false": False, "true": True}
    return FILLS


def slot_expectation(func, V, lab_tuple, order, fill, min_count):
    """exp (B,G), scope (B,G): what each slot must hold."""
    exp, scope, present = e1.expected_table(func, V, list(lab_tuple), order)
    cnt, _, _ = e1.expected_table("count", V, list(lab_tuple), order)
    cnt = np.where(present[None, :], cnt, 0)
    B, G = exp.shape
    fillarr = np.full((B, G), fill, dtype=float)
    out = exp.astype(float).copy()
    sc = scope.copy()
    absent = ~present
    out[:, absent] = fillarr[:, absent]
    sc[:, absent] = True
    either = np.zeros((B, G), dtype=bool)  # cells where flox's convention allows NumPy's value OR the fill, nothing else
    if min_count is None:
        either = present[None, :] & (cnt == 0) & scope
        sc &= ~(present[None, :] & (cnt == 0))
    else:
        below = present[None, :] & (cnt < min_count)
        out[below] = fillarr[below]
        sc |= below
        if min_count == 0 and func in ("nanmax", "nanmin"):
            # flox: "setting a default fill_value even though numpy doesn't define identity for nanmin, nanmax"
            either |= present[None, :] & (cnt == 0) & scope
            sc &= ~(present[None, :] & (cnt == 0))
    return out, sc, present, cnt, either, exp.astype(float), fillarr


def as_kind(vals, kind):
    import pandas as pd

    if kind == "list":
        return list(vals)
    if kind == "index":
        return pd.Index(vals)
    return np.array(vals)


def check_point(res, func, dtype, engine, lab_tuple, exname, sort, fillname, min_count, V, chunks=None, method=None,
                egkind="ndarray", labels_dask=False):
    labels = np.array(lab_tuple, dtype=float)
    requested = EXPECTED[exname]
    fill = fills_for(func)[fillname] if fillname is not None else None
    kw = dict(func=func, engine=engine, expected_groups=as_kind(requested, egkind), sort=sort, fill_value=fill)
    if min_count is not None:
        kw["min_count"] = min_count
    if chunks is not None:
        import dask.array as da

        arr = da.from_array(V, chunks=((V.shape[0],), chunks))
        kw["method"] = method
    else:
        arr = V
    by = labels
    if labels_dask and chunks is not None:
        by = da.from_array(labels, chunks=(chunks,))
    out = e1.call_reduce(arr, by, **kw)
    B = V.shape[0]
    res.evaluations += B
    res.states += B
    res.transitions += 1
    n = len(lab_tuple)
    case = dict(func=func, dtype=dtype, engine=engine, labels=list(lab_tuple), expected_groups=exname, sort=sort,
                fill=fillname, min_count=min_count, chunks=list(chunks) if chunks else None, method=method, egkind=egkind,
                labels_dask=labels_dask)
    tags = dict(func=func, dtype=dtype, engine=engine, expected=exname, sort=sort, fill=str(fillname),
                min_count=str(min_count), chunked=chunks is not None, method=str(method), labels_dask=labels_dask, egkind=egkind)
    size = n * 10 + (len(chunks) if chunks else 0)
    if out.kind == "refused":
        res.outcomes[f"refused:{out.exc}"] += 1
        return None
    if out.kind == "error":
        res.outcomes[f"error:{out.exc}"] += 1
        res.violate("slots-error", case, out.brief(), "a result with one slot per requested label",
                    tags=dict(tags, kind="error", exc=out.exc), size=size)
        return None
    order = sorted(requested) if sort else list(requested)
    res.compared += B
    if not rm.same_labels(out.groups[0], order):
        res.outcomes["wrong-labels"] += 1
        res.violate("slots-labels", case, dict(groups=out.groups[0]), dict(groups=order), tags=dict(tags, kind="labels"),
                    size=size)
        return None
    exp, sc, present, cnt, either, numpy_exp, fillarr = slot_expectation(func, V, lab_tuple, order, np.nan if fill is None else fill, min_count)
    bad = e1.compare(out.result, exp, sc, rtol=1e-12)
    if bad is None and either.any() and np.asarray(out.result).shape == exp.shape:
        o = np.asarray(out.result).astype(float)
        neither = rm.mismatch(o, numpy_exp, rtol=1e-12) & rm.mismatch(o, fillarr, rtol=1e-12) & either
        if neither.any():
            bad = tuple(int(i) for i in np.argwhere(neither)[0])
            exp = np.where(either, numpy_exp, exp)
    if bad is None:
        res.outcomes["ok"] += 1
        return out
    res.outcomes["mismatch"] += 1
    if bad[0] == "shape":
        res.violate("slots-shape", case, dict(shape=bad[1]), dict(shape=bad[2]), tags=dict(tags, kind="shape"), size=size)
        return None
    row, g = bad
    slot = "absent" if not present[g] else ("below-min_count" if (min_count is not None and cnt[row, g] < min_count)
                                            else ("all-nan" if cnt[row, g] == 0 else "present"))
    res.violate("slots-value", dict(case, values=V[row], slot_label=order[g], slot_kind=slot),
                np.asarray(out.result)[bad], exp[bad], tags=dict(tags, kind="value", slot=slot), size=size)
    return None


def run_shard(shard):
    e1.reset_flox_caches()
    res = Result()
    if shard["kind"] == "partial":
        return run_partial(res, shard)
    func, dtype, engine, n = shard["func"], shard["dtype"], shard["engine"], shard["n"]
    alphabet = space.alphabet_for(dtype, small=True)
    fills = fills_for(func)
    for m in range(1, n + 1):
        V = space.value_matrix(alphabet, m, dtype)
        lts = [lt for lt in itertools.product(LABELS, repeat=m)]
        if shard["kind"] == "eager":
            for lt in lts:
                present = {x for x in lt if x == x}
                for exname, sort, fillname, mc in itertools.product(EXPECTED, (True, False), fills, MIN_COUNTS):
                    if (shard.get("reduced") or (shard.get("tier") == "quick" and func not in FULL_EAGER)) and not (
                        exname in ("superset", "permuted-absent") and fillname in ("zero", "neg", "false", "true") and mc in (None, 0, 2)
                    ):
                        continue  # engines other than numpy share everything but the kernels: reduced option product in quick
                    check_point(res, func, dtype, engine, lt, exname, sort, fillname, mc, V)
                    req = set(EXPECTED[exname])
                    if (req - present) and (req & present):
                        res.nontrivial += V.shape[0]
                # fill_value=None is only legal when every requested label occurs
                for exname in ("exact", "subset", "permuted"):
                    if set(EXPECTED[exname]) <= present:
                        for egkind in ("ndarray", "list", "index"):
                            check_point(res, func, dtype, engine, lt, exname, True, None, None, V, egkind=egkind)
                if m == 3 and lt == (0.0, 2.0, 0.0):
                    res.sample(dict(func=func, engine=engine, labels=list(lt), expected_groups=EXPECTED["permuted-absent"],
                                    sort=False, fill_value=-7, min_count=2, rows=V.shape[0]))
        else:
            pairs = [(lt, ch) for lt in lts for ch in space.compositions(m)]
            pairs = [p for i, p in enumerate(pairs) if i % shard["nparts"] == shard["part"]]
            quick = shard.get("tier") == "quick"
            exnames = ("superset", "permuted-absent", "disjoint") if quick else tuple(EXPECTED)
            fillnames = [f for f in fills if f in ("zero", "neg", "false", "true")]
            mcs = (None, 0, 2)
            zero, neg = ("false", "true") if func in ("any", "all") else ("zero", "neg")
            quick_cfgs = [("superset", True, zero, None), ("superset", True, neg, 2), ("superset", True, zero, 0),
                          ("permuted-absent", True, zero, None), ("permuted-absent", False, neg, None), ("permuted-absent", False, zero, 2),
                          ("disjoint", True, zero, None), ("disjoint", False, neg, 2), ("superset", False, neg, None), ("permuted-absent", True, neg, 0)]
            for lt, ch in pairs:
                present = {x for x in lt if x == x}
                for exname, sort, fillname, mc in (quick_cfgs if quick else itertools.product(exnames, (True, False), fillnames, mcs)):
                    check_point(res, func, dtype, engine, lt, exname, sort, fillname, mc, V, chunks=ch, method=shard["method"])
                    req = set(EXPECTED[exname])
                    if (req - present) and (req & present) and len(ch) > 1:
                        res.nontrivial += V.shape[0]
                # chunked (dask) labels, expected_groups given as ndarray / list / pandas Index
                if shard["method"] in (None, "map-reduce"):
                    fn = "false" if func in ("any", "all") else "neg"
                    for exname, sort, egkind in (itertools.product(("permuted-absent", "superset"), (True, False), ("ndarray", "list", "index")) if not quick else
                                                 [("permuted-absent", True, "index"), ("permuted-absent", False, "index"), ("permuted-absent", True, "list"),
                                                  ("superset", True, "ndarray"), ("permuted-absent", False, "ndarray"), ("superset", False, "list")]):
                        check_point(res, func, dtype, engine, lt, exname, sort, fn, None, V, chunks=ch, method=shard["method"],
                                    egkind=egkind, labels_dask=True)
                if m == 3 and lt == (0.0, 2.0, 0.0) and ch == (1, 2):
                    res.sample(dict(func=func, method=shard["method"], labels=list(lt), chunks=list(ch),
                                    expected_groups=EXPECTED["permuted-absent"], sort=False, fill_value=0, min_count=2))
    return res


def replay(payload):
    from mc.runner import unjson_float

    res = Result()
    c = payload["case"]
    if c.get("leg") == "partial":
        return run_partial(res, dict(func=c["func"], shape=c["label_shape"], part=0, nparts=1))
    lt = tuple(unjson_float(c["labels"]))
    V = space.value_matrix(space.alphabet_for(c["dtype"], small=True), len(lt), c["dtype"])
    check_point(res, c["func"], c["dtype"], c["engine"], lt, c["expected_groups"], c["sort"], c["fill"], c["min_count"], V,
                chunks=tuple(c["chunks"]) if c.get("chunks") else None, method=c.get("method"), egkind=c.get("egkind", "ndarray"),
                labels_dask=c.get("labels_dask", False))
    return res
