"""C04  the block / combine / finalize decomposition of every aggregation is exact; fills are neutral.

E2 (aggregation-algebra explorer, driven through the public API as the property's observe_at says): for every
aggregation of the registry with a block stage and for user-defined Aggregation objects, every sequence of <= m
members of a target group over {1,-2,0,NaN,+inf,-inf} (ints {1,-2,0,3}) x every way of distributing them, in order,
over 2 or 3 blocks INCLUDING blocks where the group is absent (a filler group keeps blocks non-empty) x both
bracketings the tree builder produces ((a.b).c via split_every=2, (a.b.c)) x the combine implementations the planner
can pick (simple combine with reindex at block stage / at combine time, grouped combine via unknown dask labels,
per-cohort tree) x min_count / fill_value settings."""

from __future__ import annotations

import itertools

import numpy as np

from mc import e1, refmodel as rm
from mc.runner import Result

PROPERTY = "C04"
LEVEL = "model_checking"
TECHNIQUE = "exhaustive enumeration of member sequences x block distributions x combine variants through the real chunk/combine/finalize pipeline"
ENGINE = "E2"
RULE = (
    "state = (aggregation, dtype, distribution of the target group's m members over k ordered blocks with empty parts, combine "
    "variant, bracketing, min_count/fill, member-value sequence); all member sequences are the rows of one batched call; transition = "
    "the real chunk stage on every block, the real combine tree and finalize (one groupby_reduce on a k-block dask array + compute). "
    "Invariant: result for the target group == NumPy reduction of all its members at once (hence independent of the split, and a block "
    "without the group or with only NaN members is neutral); same for the filler group. Non-trivial = a distribution with an empty part "
    "or a part holding only NaN/inf."
)
ASSUMPTIONS = [
    "m<=3 members (quick) / 4 (thorough) over the alphabet {1,-2,0,NaN,+inf,-inf}; up to three blocks",
    "the bracketing a.(b.c) is not produced by dask's/flox's tree builders for three blocks and is therefore not explored",
    "for each user-defined Aggregation the harness states the reference formula; the objects satisfy the monoid laws by construction, so a mismatch is attributable to flox's machinery",
    "arg-reductions on groups containing NaN (nanarg*: all-NaN) and cells where flox's fill convention replaces NumPy's value (fill requested, no valid member) are outside the oracle",
]

INF = float("inf")
NAN = float("nan")
A_FLOAT = (1.0, -2.0, 0.0, NAN, INF, -INF)
A_INT = (1, -2, 0, 3)
REGISTRY = ("sum nansum prod nanprod mean nanmean var nanvar std nanstd max nanmax min nanmin argmax nanargmax argmin nanargmin "
            "count nanfirst nanlast any all").split()
USER = ("u_range", "u_meanclone", "u_sumcubes", "u_countpos")
FILLER = 5.0


def bounds(tier, seed):
    return dict(m=3 if tier == "quick" else 4, k=[2, 3])


def shards(tier, seed):
    b = bounds(tier, seed)
    out = []
    for func in REGISTRY + list(USER):
        for dtype in ("float64", "int64", "bool"):
            if dtype == "bool" and func not in ("any", "all", "sum", "count", "max"):
                continue
            if func in ("any", "all") and dtype != "bool":
                continue
            if func.startswith("u_") and dtype != "float64":
                continue
            out.append(dict(func=func, dtype=dtype, m=b["m"] if dtype == "float64" else min(b["m"], 3)))
    return out


# ------------------------------------------------------------------------------- user-defined aggregations


def _sumcubes_chunk(group_idx, array, *, axis=-1, size=None, fill_value=None, dtype=None, **kw):
    import numpy_groupies as npg

    return npg.aggregate_numpy.aggregate(group_idx, np.where(np.isnan(array), 0, array) ** 3, func="sum", axis=axis, size=size, fill_value=fill_value, dtype=dtype)


def _countpos_chunk(group_idx, array, *, axis=-1, size=None, fill_value=None, dtype=None, **kw):
    import numpy_groupies as npg

    return npg.aggregate_numpy.aggregate(group_idx, (array > 0).astype(np.int64), func="sum", axis=axis, size=size, fill_value=fill_value, dtype=np.int64)


def _range_finalize(mx, mn):
    with np.errstate(all="ignore"):
        return mx - mn


def _mean_finalize(s, c):
    with np.errstate(all="ignore"):
        return s / c


_USER_OBJECTS = {}


def user_agg(name):
    """ONE object per name for the whole process: a user keeps and reuses an Aggregation (eager call, then chunked calls,
    float data, then other settings); the law must hold on every use."""
    if name not in _USER_OBJECTS:
        _USER_OBJECTS[name] = _make_user_agg(name)
    return _USER_OBJECTS[name]


def _make_user_agg(name):
    import flox

    if name == "u_range":
        return flox.Aggregation("u_range", numpy=None, chunk=("nanmax", "nanmin"), combine=("nanmax", "nanmin"), finalize=_range_finalize,
                                fill_value=(-np.inf, np.inf), final_fill_value=np.nan, final_dtype=np.float64)
    if name == "u_meanclone":
        return flox.Aggregation("u_meanclone", numpy=None, chunk=("nansum", "nanlen"), combine=("sum", "sum"), finalize=_mean_finalize,
                                fill_value=(0, 0), dtypes=(None, np.intp), final_fill_value=np.nan, final_dtype=np.float64)
    if name == "u_sumcubes":
        return flox.Aggregation("u_sumcubes", numpy=None, chunk=_sumcubes_chunk, combine="sum", fill_value=0, final_fill_value=0)
    if name == "u_countpos":
        return flox.Aggregation("u_countpos", numpy=None, chunk=_countpos_chunk, combine="sum", fill_value=0, final_fill_value=0, dtypes=np.int64,
                                final_dtype=np.int64)
    raise KeyError(name)


def user_reference(name, M):
    with np.errstate(all="ignore"):
        import warnings

        with warnings.catch_warnings():
            warnings.simplefilter("ignore")
            if name == "u_range":
                return np.nanmax(M, axis=1) - np.nanmin(M, axis=1)
            if name == "u_meanclone":
                return np.nansum(M, axis=1) / (~np.isnan(M)).sum(axis=1)
            if name == "u_sumcubes":
                return np.nansum(M**3, axis=1)
            if name == "u_countpos":
                return (M > 0).sum(axis=1).astype(float)
    raise KeyError(name)


# ------------------------------------------------------------------------------- exploration


def distributions(m, k):
    """All ways of putting m ordered members into k ordered blocks (parts may be empty)."""
    out = []
    for cuts in itertools.combinations_with_replacement(range(m + 1), k - 1):
        b = (0,) + cuts + (m,)
        out.append(tuple(b[i + 1] - b[i] for i in range(k)))
    return out


VARIANTS = [
    dict(name="eager", method=None, reindex=None, labels_dask=False, expected=True, eager=True),
    dict(name="simple/reindex-at-block", method="map-reduce", reindex=True, labels_dask=False, expected=True),
    dict(name="simple/reindex-at-combine", method="map-reduce", reindex=False, labels_dask=False, expected=True),
    dict(name="grouped/unknown-labels", method="map-reduce", reindex=None, labels_dask=True, expected=False),
    dict(name="cohorts", method="cohorts", reindex=None, labels_dask=False, expected=False),
]
SETTINGS = [dict(min_count=None, fill=None), dict(min_count=1, fill=NAN), dict(min_count=2, fill=NAN), dict(min_count=None, fill=0),
            dict(min_count=None, fill=-5.0)]


def check_point(res, func, dtype, M, dist, variant, split_every, setting, engine="numpy"):
    import dask
    import dask.array as da

    B, m = M.shape
    k = len(dist)
    cols, labels, chunks = [], [], []
    j = 0
    for c in dist:
        for _ in range(c):
            cols.append(M[:, j])
            labels.append(0.0)
            j += 1
        cols.append(np.full(B, FILLER if dtype != "bool" else True, dtype=M.dtype))
        labels.append(1.0)
        chunks.append(c + 1)
    V = np.stack(cols, axis=1)
    labels = np.array(labels)
    n = len(labels)
    fobj = user_agg(func) if func.startswith("u_") else func
    kw = dict(func=fobj, method=variant["method"], reindex=variant["reindex"], engine=engine)
    if variant["expected"]:
        kw["expected_groups"] = np.array([0.0, 1.0])
        if setting["fill"] is not None:
            kw["fill_value"] = setting["fill"] if func not in ("any", "all") else False
    elif setting["fill"] is not None and setting["fill"] == 0:
        return  # (this setting is meant for the variants with expected_groups)
    elif setting["fill"] is not None:
        kw["fill_value"] = setting["fill"] if func not in ("any", "all") else False
    if setting["min_count"] is not None:
        kw["min_count"] = setting["min_count"]
    if func in ("var", "nanvar", "std", "nanstd"):
        kw["finalize_kwargs"] = dict(ddof=1)
    if variant.get("eager"):
        arr = V
        kw.pop("method", None)
        kw.pop("reindex", None)
    else:
        arr = da.from_array(V, chunks=((B,), tuple(chunks)))
    by = da.from_array(labels, chunks=(tuple(chunks),)) if variant["labels_dask"] else labels
    with dask.config.set(**({"split_every": split_every} if split_every else {})):
        out = e1.call_reduce(arr, by, **kw)
    res.evaluations += B
    res.states += B
    res.transitions += 1
    case = dict(func=func, dtype=dtype, engine=engine, distribution=list(dist), variant=variant["name"], split_every=split_every, min_count=setting["min_count"],
                fill=None if setting["fill"] is None else ("nan" if setting["fill"] != setting["fill"] else setting["fill"]))
    tags = dict(func=func, dtype=dtype, engine=engine, variant=variant["name"], split_every=str(split_every), min_count=str(setting["min_count"]),
                fill=str(setting["fill"]), has_empty_part=0 in dist)
    size = n * 10 + k
    if out.kind == "refused":
        res.outcomes[f"refused:{out.exc}"] += 1
        return
    if out.kind == "error":
        res.outcomes[f"error:{out.exc}"] += 1
        res.violate("algebra-error", case, out.brief(), "a result or a clean refusal", tags=dict(tags, kind="error", exc=out.exc), size=size)
        return
    res.compared += B
    obs = np.asarray(out.result)
    glab = np.asarray(out.groups[0]).tolist()
    want_labels = [0.0, 1.0] if (m > 0 or variant["expected"]) else [1.0]
    if glab != want_labels or obs.shape != (B, len(want_labels)):
        res.violate("algebra-labels", case, dict(groups=glab, shape=list(obs.shape)), dict(groups=want_labels), tags=dict(tags, kind="labels"), size=size)
        return
    # reference for the target group: all members at once
    if m == 0:
        res.outcomes["ok"] += 1
        return
    cnt = (~rm.isnull(M)).sum(axis=1)
    if func.startswith("u_"):
        exp, scope = user_reference(func, M.astype(float)), np.ones(B, dtype=bool)
        if func in ("u_range", "u_meanclone"):
            scope = cnt > 0
    else:
        fk = dict(ddof=1) if func in ("var", "nanvar", "std", "nanstd") else {}
        pos = [i for i, lab in enumerate(labels) if lab == 0.0]
        exp, scope = rm.reduce_members(func, M, positions=pos, **fk)
        exp = np.asarray(exp, dtype=float)
    mc, fill = setting["min_count"], setting["fill"]
    if mc is not None:
        below = cnt < mc
        exp = np.where(below, np.nan if func not in ("any", "all") else 0.0, exp)
        scope = scope | below
        if func in ("any", "all"):
            scope = scope & ~below
    either = np.zeros(B, dtype=bool)
    if (fill is not None and mc is None) or (func in ("nanmax", "nanmin") and mc is None):
        # flox's fill convention for groups without a valid member (C05): there the result must be NumPy's value OR the
        # requested fill (never anything else, e.g. a leaked +-inf sentinel)
        either = scope & (cnt == 0)
        scope = scope & (cnt > 0)
    rtol = 1e-9
    bad = rm.mismatch(obs[:, 0].astype(float), exp, rtol=rtol) & scope
    if either.any() and not func.startswith("u_"):
        fillv = np.full(B, np.nan if fill is None else float(fill))
        neither = rm.mismatch(obs[:, 0].astype(float), exp, rtol=rtol) & rm.mismatch(obs[:, 0].astype(float), fillv, rtol=rtol) & either
        bad = bad | neither
    if bad.any():
        r = int(np.argwhere(bad)[0][0])
        res.outcomes["mismatch"] += 1
        mem = np.asarray(M[r], dtype=float)
        res.violate("algebra-value", dict(case, members=M[r], blocks=[list(V[r, sum(chunks[:i]):sum(chunks[:i + 1])]) for i in range(k)]),
                    obs[r, 0], exp[r], tags=dict(tags, kind="value", members_have_inf=bool(np.isinf(mem).any()), members_have_nan=bool(np.isnan(mem).any())),
                    size=size)
        return
    res.outcomes["ok"] += 1


def run_shard(shard):
    e1.reset_flox_caches()
    res = Result()
    func, dtype, mmax = shard["func"], shard["dtype"], shard["m"]
    alphabet = A_FLOAT if dtype == "float64" else (A_INT if dtype == "int64" else (True, False))
    for m in range(1, mmax + 1):
        rows = list(itertools.product(alphabet, repeat=m))
        M = np.array(rows, dtype=dtype).reshape(len(rows), m)
        for k in (2, 3):
            for dist in distributions(m, k):
                for variant in VARIANTS:
                    for se in ((None, 2) if (k == 3 and not variant.get("eager")) else (None,)):
                        for setting in SETTINGS:
                            if dtype == "bool" and setting["fill"] is not None and setting["fill"] != setting["fill"]:
                                continue  # a NaN fill on boolean results is a dtype question (C11)
                            check_point(res, func, dtype, M, dist, variant, se, setting)
                            if 0 in dist:
                                res.nontrivial += M.shape[0]
                            # the other engines' block kernels (flox's own, numbagg): the same law, default and explicit-fill settings
                            if not func.startswith("u_") and se is None and setting in (SETTINGS[0], SETTINGS[4]):
                                for engine in ("flox", "numbagg"):
                                    check_point(res, func, dtype, M, dist, variant, se, setting, engine=engine)
    res.sample(dict(func=func, dtype=dtype, members_alphabet=[str(a) for a in alphabet], m=mmax, distributions_m3_k3=[list(d) for d in distributions(3, 3)][:4],
                    variants=[v["name"] for v in VARIANTS]))
    return res


def replay(payload):
    from mc.runner import unjson_float

    res = Result()
    c = payload["case"]
    M = np.array([unjson_float(c["members"])], dtype=c["dtype"]) if "members" in c else None
    if M is None:
        return run_shard(dict(func=c["func"], dtype=c["dtype"], m=sum(c["distribution"])))
    variant = [v for v in VARIANTS if v["name"] == c["variant"]][0]
    fill = unjson_float(c["fill"]) if c.get("fill") is not None else None
    check_point(res, c["func"], c["dtype"], M, tuple(c["distribution"]), variant, c["split_every"], dict(min_count=c["min_count"], fill=fill), engine=c.get("engine", "numpy"))
    return res
